//! Independent reference implementations written from the published constructions:
//! gear-hash content-defined chunking, keyed-BLAKE3 leaf/interior hashes, the level-wise merkle
//! aggregation with hash-defined fan-out, salted file hash, range verification hash, and a
//! decoder for the xorb chunk-frame stream, byte-grouping-4 split/regroup, and a parser/builder for
//! both xorb footer layouts.  Nothing here calls into merkledb / deduplication / cas_object.

pub type RH = [u8; 32];

pub const DATA_KEY: [u8; 32] = [
    102, 151, 245, 119, 91, 149, 80, 222, 49, 53, 203, 172, 165, 151, 24, 28, 157, 228, 33, 16, 155, 235, 43, 88, 180,
    208, 176, 75, 147, 173, 242, 41,
];
pub const INTERNAL_NODE_KEY: [u8; 32] = [
    1, 126, 197, 199, 165, 71, 41, 150, 253, 148, 102, 102, 180, 138, 2, 230, 93, 221, 83, 111, 55, 199, 109, 210, 248,
    99, 82, 230, 74, 83, 113, 63,
];
pub const VERIFICATION_KEY: [u8; 32] = [
    127, 24, 87, 214, 206, 86, 237, 102, 18, 127, 249, 19, 231, 165, 195, 243, 164, 205, 38, 213, 181, 219, 73, 230,
    65, 36, 152, 127, 40, 251, 148, 195,
];

pub const ZERO: RH = [0u8; 32];

pub fn chunk_hash(data: &[u8]) -> RH {
    *blake3::keyed_hash(&DATA_KEY, data).as_bytes()
}

/// Text form: four little-endian 64-bit words, each printed as 16 hex digits.
pub fn hex(h: &RH) -> String {
    let mut s = String::with_capacity(64);
    for w in 0..4 {
        let v = u64::from_le_bytes(h[w * 8..w * 8 + 8].try_into().unwrap());
        s.push_str(&format!("{v:016x}"));
    }
    s
}

pub fn from_hex(s: &str) -> Option<RH> {
    if s.len() != 64 || !s.bytes().all(|c| c.is_ascii_hexdigit()) {
        return None;
    }
    let mut h = [0u8; 32];
    for w in 0..4 {
        let v = u64::from_str_radix(&s[w * 16..w * 16 + 16], 16).ok()?;
        h[w * 8..w * 8 + 8].copy_from_slice(&v.to_le_bytes());
    }
    Some(h)
}

fn last_word(h: &RH) -> u64 {
    u64::from_le_bytes(h[24..32].try_into().unwrap())
}

/// Level-wise aggregation: a parent is cut after a child whose last 64-bit word is ≡ 0 mod 4
/// once the group already holds ≥ 2 earlier children (i.e. ≥ 3 with this one), or when the group
/// holds 2*4 earlier children, or at the end of the level.  A parent's hash is the keyed hash of
/// the lines "<hex> : <len>\n" of its children; its length is their sum.
pub fn merkle_root(list: &[(RH, u64)]) -> RH {
    if list.is_empty() {
        return ZERO;
    }
    let mut level: Vec<(RH, u64)> = list.to_vec();
    while level.len() > 1 {
        let mut next = Vec::new();
        let mut start = 0usize;
        let n = level.len();
        for idx in 0..n {
            let so_far = idx - start;
            if (so_far >= 2 && last_word(&level[idx].0) % 4 == 0) || so_far >= 8 || idx + 1 == n {
                let mut text = String::new();
                let mut total = 0u64;
                for (h, l) in &level[start..=idx] {
                    text.push_str(&hex(h));
                    text.push_str(" : ");
                    text.push_str(&l.to_string());
                    text.push('\n');
                    total += *l;
                }
                next.push((*blake3::keyed_hash(&INTERNAL_NODE_KEY, text.as_bytes()).as_bytes(), total));
                start = idx + 1;
            }
        }
        level = next;
    }
    level[0].0
}

/// Which branches of the fan-out rule an input drives (all levels of the tree summed).
#[derive(Default, Clone, Debug, PartialEq)]
pub struct MerkleTrace {
    /// groups closed because the child's last word is 0 mod 4 and >= 2 earlier children were in the group
    pub cut_by_hash: u64,
    /// children whose last word is 0 mod 4 but which could not close the group (< 2 earlier children)
    pub cut_suppressed_by_minimum: u64,
    /// groups closed because they already held 8 earlier children
    pub cut_forced_at_nine: u64,
    /// groups closed because the level ended
    pub cut_by_end_of_level: u64,
    pub levels: u64,
    pub widest_group: u64,
}

/// Same construction as [`merkle_root`], written separately and annotated (vacuity counters).
pub fn merkle_root_traced(list: &[(RH, u64)]) -> (RH, MerkleTrace) {
    let mut tr = MerkleTrace::default();
    if list.is_empty() {
        return (ZERO, tr);
    }
    let mut level: Vec<(RH, u64)> = list.to_vec();
    while level.len() > 1 {
        tr.levels += 1;
        let mut next: Vec<(RH, u64)> = Vec::new();
        let mut group: Vec<(RH, u64)> = Vec::new();
        let n = level.len();
        for (idx, child) in level.iter().enumerate() {
            let earlier = group.len();
            group.push(*child);
            let zero_mod_4 = last_word(&child.0) & 3 == 0;
            let close = if earlier >= 2 && zero_mod_4 {
                tr.cut_by_hash += 1;
                true
            } else if earlier >= 8 {
                tr.cut_forced_at_nine += 1;
                true
            } else if idx + 1 == n {
                tr.cut_by_end_of_level += 1;
                true
            } else {
                if zero_mod_4 {
                    tr.cut_suppressed_by_minimum += 1;
                }
                false
            };
            if close {
                tr.widest_group = tr.widest_group.max(group.len() as u64);
                let mut text = Vec::new();
                let mut total = 0u64;
                for (h, l) in &group {
                    text.extend_from_slice(hex(h).as_bytes());
                    text.extend_from_slice(format!(" : {l}\n").as_bytes());
                    total += *l;
                }
                next.push((*blake3::keyed_hash(&INTERNAL_NODE_KEY, &text).as_bytes(), total));
                group.clear();
            }
        }
        level = next;
    }
    (level[0].0, tr)
}

/// [`merkle_root`] of a list given as runs of identical entries `((hash, length), count)`, in memory proportional to
/// the number of runs and the tree height: inside a run of identical children every group that starts on an empty
/// group closes at the same size with the same parent, so whole groups are emitted as a run of parents.  Checked
/// against `merkle_root` on expanded lists by the labs that use it.
pub fn merkle_root_runs(runs: &[((RH, u64), u64)]) -> RH {
    let mut level: Vec<((RH, u64), u64)> = runs.iter().filter(|r| r.1 > 0).cloned().collect();
    if level.is_empty() {
        return ZERO;
    }
    let node = |group: &[(RH, u64)]| -> (RH, u64) {
        let mut text = Vec::new();
        let mut total = 0u64;
        for (h, l) in group {
            text.extend_from_slice(hex(h).as_bytes());
            text.extend_from_slice(format!(" : {l}\n").as_bytes());
            total += *l;
        }
        (*blake3::keyed_hash(&INTERNAL_NODE_KEY, &text).as_bytes(), total)
    };
    let push = |next: &mut Vec<((RH, u64), u64)>, v: (RH, u64), c: u64| {
        if c == 0 {
            return;
        }
        match next.last_mut() {
            Some(l) if l.0 == v => l.1 += c,
            _ => next.push((v, c)),
        }
    };
    while level.iter().map(|r| r.1).sum::<u64>() > 1 {
        let total: u64 = level.iter().map(|r| r.1).sum();
        let mut next: Vec<((RH, u64), u64)> = Vec::new();
        let mut group: Vec<(RH, u64)> = Vec::new();
        let mut idx = 0u64; // children consumed so far
        for (child, count) in &level {
            let zero_mod_4 = last_word(&child.0) & 3 == 0;
            let period = if zero_mod_4 { 3 } else { 9 };
            let mut left = *count;
            while left > 0 {
                if group.is_empty() && left >= period {
                    // whole groups of identical children; the last child of the level closes its group anyway,
                    // by size, so the end-of-level rule changes nothing for them
                    let k = left / period;
                    let parent = node(&vec![*child; period as usize]);
                    push(&mut next, parent, k);
                    left -= k * period;
                    idx += k * period;
                    continue;
                }
                let earlier = group.len();
                group.push(*child);
                left -= 1;
                idx += 1;
                if (earlier >= 2 && zero_mod_4) || earlier >= 8 || idx == total {
                    let parent = node(&group);
                    push(&mut next, parent, 1);
                    group.clear();
                }
            }
        }
        level = next;
    }
    level[0].0 .0
}

/// URL-safe base64 without padding (RFC 4648 section 5), written out by hand.
pub fn base64url_nopad(bytes: &[u8]) -> String {
    const A: &[u8; 64] = b"ABCDEFGHIJKLMNOPQRSTUVWXYZabcdefghijklmnopqrstuvwxyz0123456789-_";
    let mut s = String::new();
    for c in bytes.chunks(3) {
        let v = (c[0] as u32) << 16 | (*c.get(1).unwrap_or(&0) as u32) << 8 | *c.get(2).unwrap_or(&0) as u32;
        s.push(A[(v >> 18) as usize & 63] as char);
        s.push(A[(v >> 12) as usize & 63] as char);
        if c.len() > 1 {
            s.push(A[(v >> 6) as usize & 63] as char);
        }
        if c.len() > 2 {
            s.push(A[v as usize & 63] as char);
        }
    }
    s
}

/// The 32 bytes of a hash as they are laid out for the byte-oriented text form (the four words little-endian).
pub fn base64(h: &RH) -> String {
    base64url_nopad(h)
}

pub fn xorb_hash(list: &[(RH, u64)]) -> RH {
    merkle_root(list)
}

pub fn file_hash(list: &[(RH, u64)], salt: &[u8; 32]) -> RH {
    if list.is_empty() {
        return ZERO;
    }
    let root = merkle_root(list);
    *blake3::keyed_hash(salt, &root).as_bytes()
}

pub fn range_hash(hashes: &[RH]) -> RH {
    let mut buf = Vec::with_capacity(hashes.len() * 32);
    for h in hashes {
        buf.extend_from_slice(h);
    }
    *blake3::keyed_hash(&VERIFICATION_KEY, &buf).as_bytes()
}

pub fn hmac(h: &RH, key: &RH) -> RH {
    *blake3::keyed_hash(key, h).as_bytes()
}

// ------------------------------------------------------------------ chunker

pub struct ChunkParams {
    pub target: usize,
    pub min: usize,
    pub max: usize,
    pub mask: u64,
}
pub fn chunk_params(target: usize) -> ChunkParams {
    let m = (target - 1) as u64;
    ChunkParams {
        target,
        min: target / 8,
        max: target * 2,
        mask: m << m.leading_zeros(),
    }
}

/// Chunk boundaries (end offsets) of `data` under the reference gear rule: from each boundary,
/// skip `min-64-1` bytes without hashing when `min > 64`, then roll `h = (h<<1) + T[b]` from 0 and
/// cut after the first byte with `h & mask == 0`; forced cut at `max`; the remainder is the
/// final chunk.
pub fn chunk_ends(data: &[u8], target: usize) -> Vec<usize> {
    let p = chunk_params(target);
    let t = &gearhash::DEFAULT_TABLE;
    let mut ends = Vec::new();
    let mut start = 0usize;
    while start < data.len() {
        let skip = if p.min > 64 { p.min - 64 - 1 } else { 0 };
        let mut i = start + skip;
        let mut h: u64 = 0;
        let mut end = None;
        let limit = (start + p.max).min(data.len());
        while i < limit {
            h = (h << 1).wrapping_add(t[data[i] as usize]);
            i += 1;
            if h & p.mask == 0 {
                end = Some(i);
                break;
            }
        }
        let e = match end {
            Some(e) => e,
            None => limit, // forced cut at max, or end of stream
        };
        ends.push(e);
        start = e;
    }
    ends
}

/// Why a reference chunk ended where it did.
#[derive(Clone, Copy, PartialEq, Eq, Debug)]
pub enum CutKind {
    /// gear match before the maximum
    Match,
    /// gear match on exactly the byte that also reaches the maximum
    MatchAtMax,
    /// no match up to the maximum
    Forced,
    /// the stream ended first
    EndOfStream,
}

/// Same rule as [`chunk_ends`], annotated with the reason of every cut (used for vacuity
/// counters: which paths of the rule an input actually drives).
pub fn chunk_cuts(data: &[u8], target: usize) -> Vec<(usize, CutKind)> {
    let p = chunk_params(target);
    let t = &gearhash::DEFAULT_TABLE;
    let skip = if p.min > 64 { p.min - 64 - 1 } else { 0 };
    let mut out = Vec::new();
    let mut start = 0usize;
    while start < data.len() {
        let mut h: u64 = 0;
        let mut len = skip;
        let mut kind = None;
        loop {
            if start + len >= data.len() {
                len = data.len() - start;
                kind = kind.or(Some(CutKind::EndOfStream));
                break;
            }
            if len >= p.max {
                kind = Some(CutKind::Forced);
                break;
            }
            h = (h << 1).wrapping_add(t[data[start + len] as usize]);
            len += 1;
            if h & p.mask == 0 {
                kind = Some(if len == p.max { CutKind::MatchAtMax } else { CutKind::Match });
                break;
            }
        }
        start += len;
        out.push((start, kind.unwrap()));
    }
    out
}

pub fn chunk_list(data: &[u8], target: usize) -> Vec<(RH, u64)> {
    let mut out = Vec::new();
    let mut s = 0;
    for e in chunk_ends(data, target) {
        out.push((chunk_hash(&data[s..e]), (e - s) as u64));
        s = e;
    }
    out
}

// ------------------------------------------------------------------ xorb frame stream

#[derive(Debug, Clone)]
pub struct RefFrame {
    pub scheme: u8,
    pub compressed_len: usize,
    pub uncompressed_len: usize,
    pub data: Vec<u8>,
}

/// Inverse of [`bg4_split`]: group k (k = 0..3) holds the bytes at positions i with i % 4 == k,
/// in order; group k has ceil((n-k)/4) bytes (0 when n <= k); the groups are concatenated.
pub fn bg4_regroup(g: &[u8]) -> Vec<u8> {
    let n = g.len();
    let mut out = vec![0u8; n];
    let mut off = 0usize;
    for k in 0..4 {
        let cnt = if n > k { (n - k + 3) / 4 } else { 0 };
        for j in 0..cnt {
            out[j * 4 + k] = g[off + j];
        }
        off += cnt;
    }
    out
}

/// Byte-grouping-4: concatenation of the four subsequences data[k], data[k+4], data[k+8], ... for k = 0..3.
pub fn bg4_split(data: &[u8]) -> Vec<u8> {
    let mut out = Vec::with_capacity(data.len());
    for k in 0..4 {
        let mut i = k;
        while i < data.len() {
            out.push(data[i]);
            i += 4;
        }
    }
    out
}

pub const FRAME_HEADER_LEN: usize = 8;

/// Decodes the single chunk frame starting at `p`; returns the frame and the offset just after it.
/// header = version(1) compressed_len(3 LE) scheme(1) uncompressed_len(3 LE); scheme 0 = stored,
/// 1 = LZ4 frame, 2 = byte-grouping-4 then LZ4 frame.
pub fn decode_one_frame(buf: &[u8], p: usize) -> Result<(RefFrame, usize), String> {
    if buf.len() < p || buf.len() - p < FRAME_HEADER_LEN {
        return Err(format!("truncated frame header at {p}"));
    }
    let ver = buf[p];
    let cl = u32::from_le_bytes([buf[p + 1], buf[p + 2], buf[p + 3], 0]) as usize;
    let scheme = buf[p + 4];
    let ul = u32::from_le_bytes([buf[p + 5], buf[p + 6], buf[p + 7], 0]) as usize;
    if ver != 0 {
        return Err(format!("frame version {ver} at {p}"));
    }
    let mut p = p + FRAME_HEADER_LEN;
    if buf.len() - p < cl {
        return Err(format!("truncated frame payload at {p}: need {cl}"));
    }
    let payload = &buf[p..p + cl];
    p += cl;
    let data = match scheme {
        0 => payload.to_vec(),
        1 | 2 => {
            use std::io::Read;
            let mut d = Vec::new();
            lz4_flex::frame::FrameDecoder::new(payload)
                .read_to_end(&mut d)
                .map_err(|e| format!("lz4: {e}"))?;
            if scheme == 2 {
                bg4_regroup(&d)
            } else {
                d
            }
        },
        s => return Err(format!("unknown scheme {s}")),
    };
    if data.len() != ul {
        return Err(format!("frame length mismatch: header {ul}, decoded {}", data.len()));
    }
    Ok((
        RefFrame {
            scheme,
            compressed_len: cl,
            uncompressed_len: ul,
            data,
        },
        p,
    ))
}

/// Decodes a concatenation of chunk frames (see [`decode_one_frame`]).
pub fn decode_frames(buf: &[u8]) -> Result<Vec<RefFrame>, String> {
    let mut out = Vec::new();
    let mut p = 0usize;
    while p < buf.len() {
        let (f, q) = decode_one_frame(buf, p)?;
        out.push(f);
        p = q;
    }
    Ok(out)
}

pub const FOOTER_IDENT: &[u8; 7] = b"XETBLOB";
pub const FOOTER_IDENT_HASHES: &[u8; 7] = b"XBLBHSH";
pub const FOOTER_IDENT_BOUNDARIES: &[u8; 7] = b"XBLBBND";

/// What follows the frames when a xorb is read front to back.
#[derive(Debug, Clone, PartialEq, Eq)]
pub enum StreamTail {
    /// the byte string ends exactly at a frame boundary
    NoFooter,
    /// the 7-byte footer ident + version byte were found at `at`
    Footer { at: usize, version: u8 },
}

/// Front-to-back view of a xorb: frames are decoded until the input ends at a frame boundary or
/// the next 8 bytes start with the footer ident.
pub fn parse_stream(buf: &[u8]) -> Result<(Vec<RefFrame>, Vec<usize>, StreamTail), String> {
    let mut frames = Vec::new();
    let mut ends = Vec::new();
    let mut p = 0usize;
    loop {
        if p == buf.len() {
            return Ok((frames, ends, StreamTail::NoFooter));
        }
        if buf.len() - p < 8 {
            return Err(format!("{} stray bytes after the frames at {p}", buf.len() - p));
        }
        if &buf[p..p + 7] == FOOTER_IDENT {
            return Ok((frames, ends, StreamTail::Footer { at: p, version: buf[p + 7] }));
        }
        let (f, q) = decode_one_frame(buf, p)?;
        frames.push(f);
        ends.push(q);
        p = q;
    }
}

/// A parsed xorb footer (either layout).
#[derive(Debug, Clone, PartialEq, Eq)]
pub struct RefFooter {
    pub version: u8,
    pub xorb_hash: RH,
    pub num_chunks: u32,
    pub chunk_hashes: Vec<RH>,
    /// cumulative physical end offset of each frame
    pub boundaries: Vec<u32>,
    /// cumulative unpacked end offset of each chunk (layout 1 only)
    pub unpacked: Option<Vec<u32>>,
    /// info length (the footer without the 4-byte trailer)
    pub info_len: usize,
}

struct Rd<'a> {
    b: &'a [u8],
    p: usize,
}
impl<'a> Rd<'a> {
    fn take(&mut self, n: usize) -> Result<&'a [u8], String> {
        if self.b.len() - self.p < n {
            return Err(format!("footer truncated at {} (need {n})", self.p));
        }
        let s = &self.b[self.p..self.p + n];
        self.p += n;
        Ok(s)
    }
    fn u32(&mut self) -> Result<u32, String> {
        Ok(u32::from_le_bytes(self.take(4)?.try_into().unwrap()))
    }
    fn u8(&mut self) -> Result<u8, String> {
        Ok(self.take(1)?[0])
    }
    fn hash(&mut self) -> Result<RH, String> {
        let mut h = [0u8; 32];
        h.copy_from_slice(self.take(32)?);
        Ok(h)
    }
}

/// Parses `info` = the footer bytes WITHOUT the 4-byte length trailer; all of `info` must be consumed.
/// Layout 0: ident(7) 0(1) xorb_hash(32) n(4) boundaries(4n) chunk_hashes(32n) reserved(16).
/// Layout 1: ident(7) 1(1) xorb_hash(32) | "XBLBHSH"(7) 0(1) n(4) chunk_hashes(32n) |
///           "XBLBBND"(7) 1(1) n(4) boundaries(4n) unpacked(4n) | n(4) hashes_section_offset_from_end(4)
///           boundary_section_offset_from_end(4) reserved(16); the two offsets count bytes from the
///           start of their section to the end of the info block.
pub fn parse_footer_info(info: &[u8]) -> Result<RefFooter, String> {
    let mut r = Rd { b: info, p: 0 };
    if r.take(7)? != FOOTER_IDENT {
        return Err("bad footer ident".into());
    }
    let version = r.u8()?;
    let xorb_hash = r.hash()?;
    let out = match version {
        0 => {
            let n = r.u32()?;
            if (n as usize) > info.len() {
                return Err(format!("chunk count {n} exceeds footer size"));
            }
            let mut boundaries = Vec::new();
            for _ in 0..n {
                boundaries.push(r.u32()?);
            }
            let mut chunk_hashes = Vec::new();
            for _ in 0..n {
                chunk_hashes.push(r.hash()?);
            }
            r.take(16)?;
            RefFooter {
                version,
                xorb_hash,
                num_chunks: n,
                chunk_hashes,
                boundaries,
                unpacked: None,
                info_len: info.len(),
            }
        },
        1 => {
            let hs = r.p;
            if r.take(7)? != FOOTER_IDENT_HASHES {
                return Err("bad hashes-section ident".into());
            }
            // the sub-section version tags are not part of what the property constrains (an implementation
            // may accept older or newer tags): they are skipped here; what matters is that the fields a
            // validator relied on are consistent with the chunk data
            let _hashes_version = r.u8()?;
            let n = r.u32()?;
            if (n as usize) > info.len() {
                return Err(format!("chunk count {n} exceeds footer size"));
            }
            let mut chunk_hashes = Vec::new();
            for _ in 0..n {
                chunk_hashes.push(r.hash()?);
            }
            let bs = r.p;
            if r.take(7)? != FOOTER_IDENT_BOUNDARIES {
                return Err("bad boundaries-section ident".into());
            }
            let _boundaries_version = r.u8()?;
            if r.u32()? != n {
                return Err("chunk counts differ (boundaries section)".into());
            }
            let mut boundaries = Vec::new();
            for _ in 0..n {
                boundaries.push(r.u32()?);
            }
            let mut unpacked = Vec::new();
            for _ in 0..n {
                unpacked.push(r.u32()?);
            }
            if r.u32()? != n {
                return Err("chunk counts differ (trailer)".into());
            }
            let hoff = r.u32()? as usize;
            let boff = r.u32()? as usize;
            r.take(16)?;
            if r.p - hs != hoff || r.p - bs != boff {
                return Err("section offsets do not match the layout".into());
            }
            RefFooter {
                version,
                xorb_hash,
                num_chunks: n,
                chunk_hashes,
                boundaries,
                unpacked: Some(unpacked),
                info_len: info.len(),
            }
        },
        v => return Err(format!("unknown footer version {v}")),
    };
    if r.p != info.len() {
        return Err(format!("{} unparsed bytes inside the info block", info.len() - r.p));
    }
    Ok(out)
}

/// Builds footer bytes INCLUDING the 4-byte length trailer.  `unpacked = None` builds layout 0.
pub fn build_footer(xorb_hash: &RH, chunk_hashes: &[RH], boundaries: &[u32], unpacked: Option<&[u32]>) -> Vec<u8> {
    let n = chunk_hashes.len() as u32;
    let mut o = Vec::new();
    o.extend_from_slice(FOOTER_IDENT);
    match unpacked {
        None => {
            o.push(0);
            o.extend_from_slice(xorb_hash);
            o.extend_from_slice(&n.to_le_bytes());
            for b in boundaries {
                o.extend_from_slice(&b.to_le_bytes());
            }
            for h in chunk_hashes {
                o.extend_from_slice(h);
            }
            o.extend_from_slice(&[0u8; 16]);
        },
        Some(unpacked) => {
            o.push(1);
            o.extend_from_slice(xorb_hash);
            let hs = o.len();
            o.extend_from_slice(FOOTER_IDENT_HASHES);
            o.push(0);
            o.extend_from_slice(&n.to_le_bytes());
            for h in chunk_hashes {
                o.extend_from_slice(h);
            }
            let bs = o.len();
            o.extend_from_slice(FOOTER_IDENT_BOUNDARIES);
            o.push(1);
            o.extend_from_slice(&n.to_le_bytes());
            for b in boundaries {
                o.extend_from_slice(&b.to_le_bytes());
            }
            for u in unpacked {
                o.extend_from_slice(&u.to_le_bytes());
            }
            o.extend_from_slice(&n.to_le_bytes());
            let end = o.len() + 4 + 4 + 16;
            o.extend_from_slice(&((end - hs) as u32).to_le_bytes());
            o.extend_from_slice(&((end - bs) as u32).to_le_bytes());
            o.extend_from_slice(&[0u8; 16]);
        },
    }
    let il = o.len() as u32;
    o.extend_from_slice(&il.to_le_bytes());
    o
}

/// A layout-1 footer whose sections need not agree with each other: the hash section announces `n_hashes_field`
/// and holds `chunk_hashes`, the boundary section announces `n_bounds_field` and holds `boundaries` and `unpacked`,
/// the trailing count is `n_trailing`; the two offsets-from-the-end and the length trailer are computed for the bytes
/// actually written, so nothing but the counts is inconsistent.
pub fn build_footer_v1_parts(xorb_hash: &RH, chunk_hashes: &[RH], n_hashes_field: u32, boundaries: &[u32], unpacked: &[u32], n_bounds_field: u32, n_trailing: u32) -> Vec<u8> {
    let mut o = Vec::new();
    o.extend_from_slice(FOOTER_IDENT);
    o.push(1);
    o.extend_from_slice(xorb_hash);
    let hs = o.len();
    o.extend_from_slice(FOOTER_IDENT_HASHES);
    o.push(0);
    o.extend_from_slice(&n_hashes_field.to_le_bytes());
    for h in chunk_hashes {
        o.extend_from_slice(h);
    }
    let bs = o.len();
    o.extend_from_slice(FOOTER_IDENT_BOUNDARIES);
    o.push(1);
    o.extend_from_slice(&n_bounds_field.to_le_bytes());
    for b in boundaries {
        o.extend_from_slice(&b.to_le_bytes());
    }
    for u in unpacked {
        o.extend_from_slice(&u.to_le_bytes());
    }
    o.extend_from_slice(&n_trailing.to_le_bytes());
    let end = o.len() + 4 + 4 + 16;
    o.extend_from_slice(&((end - hs) as u32).to_le_bytes());
    o.extend_from_slice(&((end - bs) as u32).to_le_bytes());
    o.extend_from_slice(&[0u8; 16]);
    let il = o.len() as u32;
    o.extend_from_slice(&il.to_le_bytes());
    o
}

/// Splits a serialized xorb into (frame region, footer bytes) using the trailing u32 info length.
pub fn split_xorb(buf: &[u8]) -> Result<(&[u8], &[u8]), String> {
    if buf.len() < 4 {
        return Err("shorter than the info-length trailer".into());
    }
    let il = u32::from_le_bytes(buf[buf.len() - 4..].try_into().unwrap()) as usize;
    if il + 4 > buf.len() {
        return Err(format!("info length {il} exceeds object size {}", buf.len()));
    }
    let cut = buf.len() - 4 - il;
    Ok((&buf[..cut], &buf[cut..]))
}

pub fn to_mh(h: &RH) -> merklehash::MerkleHash {
    merklehash::MerkleHash::from(h)
}
pub fn from_mh(h: &merklehash::MerkleHash) -> RH {
    let mut r = [0u8; 32];
    r.copy_from_slice(h.as_bytes());
    r
}

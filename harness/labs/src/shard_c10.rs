//! C10 part of lab_shard_store: all ordered pairs of a shard family through union / difference
//! (reader-writer API, file API, in-memory API) and a breadth-first search over session-directory
//! histories for consolidation.  Included by the lab binary with `#[path]`.

#![allow(dead_code)]

use std::collections::{BTreeMap, BTreeSet};
use std::io::Cursor;
use std::path::{Path, PathBuf};
use std::sync::{Arc, Mutex};

use mdb_shard::session_directory::consolidate_shards_in_directory;
use mdb_shard::set_operations::{shard_file_difference, shard_file_union, shard_set_difference, shard_set_union};
use mdb_shard::MDBShardInfo;
use serde_json::{json, Value};
use vcore::report::{machinery_error, Args, Partial, Run, Tier};
use vcore::util::Scratch;

use crate::shard_c09::{alphabet, mk_file, mk_xorb, never_present};
use crate::shard_checks::*;
use crate::shard_model::*;

const THREADS: usize = 16;

// ------------------------------------------------------------------ the family of shards

pub fn family(tier: Tier) -> Vec<RShard> {
    let al = alphabet(5);
    // file keys: A and B share a truncated key, C has truncated key 0, D has 2^64-1
    let fkeys: Vec<(u64, K, usize)> = vec![(1, al[1], 2), (2, al[2], 1), (0, al[0], 3), (3, al[3], 0)];
    let xorb = |i: usize| -> RXorb {
        match i {
            0 => mk_xorb(1, al[1], 2, 0),
            1 => mk_xorb(2, al[2], 1, 0),
            _ => mk_xorb(3, al[3], 3, 0),
        }
    };
    let nfile = tier.pick(2usize, 3usize);
    let flag_patterns: Vec<[u8; 3]> = match tier {
        Tier::Quick => vec![[0, 0, 0], [1, 1, 1], [2, 2, 2], [3, 3, 3], [1, 2, 3]],
        Tier::Thorough => vec![[0, 0, 0], [1, 1, 1], [2, 2, 2], [3, 3, 3], [1, 2, 3], [2, 0, 1]],
    };
    let xsets: Vec<Vec<usize>> = match tier {
        Tier::Quick => vec![vec![], vec![0], vec![0, 1]],
        Tier::Thorough => vec![vec![], vec![0], vec![1], vec![0, 1], vec![1, 2], vec![0, 1, 2]],
    };
    let mut set: BTreeSet<RShard> = BTreeSet::new();
    for fm in 0u32..(1 << nfile) {
        for fp in &flag_patterns {
            for xs in &xsets {
                let mut s = RShard::default();
                for i in 0..nfile {
                    if fm & (1 << i) != 0 {
                        let (id, k, nseg) = fkeys[i];
                        s.add_file(mk_file(id, k, nseg, fp[i]));
                    }
                }
                for x in xs {
                    s.add_xorb(xorb(*x));
                }
                set.insert(s);
            }
        }
    }
    // the same file A under other segmentations (the same content deduplicated against different data): three
    // segments instead of two, and two segments with other boundaries; the SHA-256 is the file's, whatever
    // the segmentation
    for (vid, nseg) in [(11u64, 3usize), (12, 2)] {
        for f in 0..4u8 {
            let mut v = mk_file(vid, al[1], nseg, f);
            if v.sha.is_some() {
                v.sha = mk_file(1, al[1], 2, 2).sha;
            }
            let mut s = RShard::default();
            s.add_file(v.clone());
            set.insert(s.clone());
            if tier == Tier::Thorough || f == 1 || f == 2 {
                // followed by another file, so that a mis-sized record shifts what comes after it
                s.add_file(mk_file(0, al[0], 3, f));
                s.add_xorb(xorb(0));
                set.insert(s);
            }
        }
    }
    // a file whose segments sum to more than 2^32 bytes (each fits its 32-bit field): totals are 64-bit
    for f in [0u8, 3] {
        let mut big = mk_file(21, [0x77, 0x21, 0, 0], 2, f);
        for sg in big.segs.iter_mut() {
            sg.bytes = 3_000_000_000;
        }
        let mut s = RShard::default();
        s.add_file(big);
        set.insert(s.clone());
        s.add_file(mk_file(0, al[0], 3, f));
        set.insert(s);
    }
    // extreme truncated key
    for f in 0..4u8 {
        let mut s = RShard::default();
        s.add_file(mk_file(3, al[3], 0, f));
        set.insert(s.clone());
        if tier == Tier::Thorough {
            s.add_xorb(xorb(2));
            set.insert(s.clone());
            s.add_file(mk_file(1, al[1], 2, (f + 1) % 4));
            set.insert(s);
        }
    }
    // collision-heavy shards: unions reach 7 (still served) and 8 (documented refusal) per truncated key
    let fileset = |ids: std::ops::Range<u64>| {
        let mut s = RShard::default();
        for j in ids {
            s.add_file(mk_file(j, [9, j, 0, 0], (j % 3) as usize, (j % 4) as u8));
        }
        s
    };
    let xorbset = |ids: std::ops::Range<u64>| {
        let mut s = RShard::default();
        for j in ids {
            s.add_xorb(mk_xorb(j, [9, j, 0, 0], (j % 3) as usize, 1));
        }
        s
    };
    for r in [1..5u64, 5..9, 9..12, 1..8] {
        set.insert(fileset(r.clone()));
        set.insert(xorbset(r));
    }
    set.into_iter().collect()
}

pub struct Ser {
    pub model: RShard,
    pub bytes: Vec<u8>,
    pub info: MDBShardInfo,
}

fn serialize_family(fam: &[RShard]) -> Vec<Ser> {
    fam.iter()
        .map(|s| {
            let (bytes, info) = serialize_mem(&build_mem(s, false)).unwrap_or_else(|e| machinery_error(&format!("family shard does not serialize: {e}")));
            Ser { model: s.clone(), bytes, info }
        })
        .collect()
}

fn all_keys(a: &RShard, b: &RShard) -> Vec<K> {
    let mut q: BTreeSet<K> = BTreeSet::new();
    for s in [a, b] {
        q.extend(s.files.keys().cloned());
        q.extend(s.xorbs.keys().cloned());
    }
    q.extend(never_present());
    q.extend(alphabet(5));
    q.insert([9, 99, 0, 0]);
    q.into_iter().collect()
}

fn map_shape(op: &str, shape: &str) -> String {
    let m = match (op, shape) {
        ("union", "scan-misses-record") => "union-loses-record".to_string(),
        ("union", "scan-invents-record") => "union-invents-record".to_string(),
        ("union", "scan-record-differs") => "union-record-differs".to_string(),
        ("difference", "scan-misses-record") | ("difference", "scan-invents-record") | ("difference", "scan-record-differs") => "difference-wrong".to_string(),
        (o, "present-key-not-found") | (o, "lookup-table-wrong") | (o, "record-differs") | (o, "lookup-error") => format!("{o}-record-not-retrievable"),
        (o, s) => format!("{o}-{s}"),
    };
    format!("C10/{m}")
}

/// One result of a set operation (bytes written + the info the call returned) against the reference.
fn check_result(op: &str, api: &str, want: &RShard, bytes: &[u8], returned: Option<&MDBShardInfo>, q: &[K], st: &mut Stats) -> Vec<(String, String)> {
    let mut v = vec![];
    if let Some(ret) = returned {
        match MDBShardInfo::load_from_reader(&mut Cursor::new(bytes)) {
            Ok(i) => {
                if i.metadata != ret.metadata {
                    v.push((format!("C10/{op}-returned-footer-differs"), format!("{api}: the shard info returned by the call differs from the footer it wrote: {:?} vs {:?}", ret.metadata, i.metadata)));
                }
            },
            Err(e) => v.push((format!("C10/{op}-result-unreadable"), format!("{api}: {e:?}"))),
        }
    }
    for (shape, what) in check_seekable(want, bytes, q, q, st, true) {
        v.push((map_shape(op, &shape), format!("{api}: {what}")));
    }
    v
}

fn flags_relation(a: &RShard, b: &RShard, out: &mut Partial) {
    let mut shared = 0;
    for (k, f) in &a.files {
        if let Some(g) = b.files.get(k) {
            shared += 1;
            let (x, y) = (f.flags(), g.flags());
            if x == y {
                out.count("vac:union_same_file_equal_flags", 1);
            } else if x & y == y {
                out.count("vac:union_same_file_first_richer", 1);
            } else if x & y == x {
                out.count("vac:union_same_file_second_richer", 1);
            } else {
                out.count("vac:union_same_file_incomparable_flags_merged", 1);
            }
        }
    }
    let shared_x = a.xorbs.keys().filter(|k| b.xorbs.contains_key(*k)).count();
    if a == b {
        out.count("vac:pairs_identical", 1);
    } else if shared + shared_x > 0 {
        out.count("vac:pairs_overlapping", 1);
    } else {
        out.count("vac:pairs_disjoint", 1);
    }
    if a.is_empty() || b.is_empty() {
        out.count("vac:pairs_with_an_empty_shard", 1);
    }
}

fn max_run(s: &RShard) -> usize {
    let mut m = 0;
    for k in s.files.keys() {
        m = m.max(s.file_prefix_run(k));
    }
    for k in s.xorbs.keys() {
        m = m.max(s.xorb_prefix_run(k));
    }
    m
}

pub fn check_pair(a: &Ser, b: &Ser, dir: &Path, tag: &str, sample: bool, out: &mut Partial) {
    let replay = json!({"lab": "shard_store", "kind": "pair", "a": a.model.to_json(), "b": b.model.to_json()});
    let r = std::panic::catch_unwind(std::panic::AssertUnwindSafe(|| {
        let mut local = Partial::default();
        check_pair_inner(a, b, dir, tag, sample, &mut local, &replay);
        local
    }));
    match r {
        Ok(p) => out.merge(p),
        Err(p) => {
            let loc = vcore::util::last_panic_loc();
            let file = loc.rsplit('/').next().unwrap_or("").split(':').next().unwrap_or("").to_string();
            out.violation(
                &format!("C10/panic:set-operation@{file}"),
                format!("panic at {loc} in a set operation on ({}) and ({}): {}", a.model.describe(), b.model.describe(), vcore::util::panic_text(&p).chars().take(400).collect::<String>()),
                replay,
            );
        },
    }
    out.count("pairs", 1);
}

fn check_pair_inner(a: &Ser, b: &Ser, dir: &Path, tag: &str, sample: bool, out: &mut Partial, replay: &Value) {
    let q = all_keys(&a.model, &b.model);
    let want_u = RShard::union(&a.model, &b.model);
    let want_d = RShard::difference(&a.model, &b.model);
    flags_relation(&a.model, &b.model, out);
    let mr = max_run(&want_u);
    if mr >= 2 {
        out.count("vac:union_results_with_colliding_truncated_keys", 1);
    }
    if mr == 7 {
        out.count("vac:union_results_with_7_colliding", 1);
    }
    if mr >= 8 {
        out.count("vac:union_results_with_8_or_more_colliding", 1);
    }
    out.count(if want_d.is_empty() { "vac:difference_empty_result" } else { "vac:difference_nonempty_result" }, 1);
    if !want_d.is_empty() && want_d != b.model {
        out.count("vac:difference_strict_subset_of_second", 1);
    }
    let mut st = Stats::default();
    let mut fails: Vec<(String, String)> = vec![];
    let desc = format!("first ({}) second ({})", a.model.describe(), b.model.describe());
    // A file on both sides may have several acceptable merged records (RFile::merged_candidates): the
    // expected shard carries, per such file, the candidate the result actually holds (found with the
    // code's own scan; every other oracle then checks the result against that expectation), or the first
    // candidate when the result holds none of them.
    let (cand_files, _) = RShard::union_spec(&a.model, &b.model);
    let multi = cand_files.values().any(|c| c.len() > 1);
    let expect_union = |bytes: &[u8], out: &mut Partial| -> RShard {
        let mut w = want_u.clone();
        if !multi {
            return w;
        }
        if let Ok((got, _, _)) = scan_to_model(bytes) {
            for (k, c) in &cand_files {
                if c.len() > 1 {
                    if let Some(g) = got.files.get(k) {
                        if c.contains(g) && w.files.get(k) != Some(g) {
                            w.files.insert(*k, g.clone());
                            out.count("vac:union_result_holds_another_acceptable_variant", 1);
                        }
                    }
                }
            }
        }
        w
    };
    if a.model.files.iter().any(|(k, f)| b.model.files.get(k).map(|g| g.segs != f.segs).unwrap_or(false)) {
        out.count("vac:pairs_with_one_file_under_two_segmentations", 1);
    }

    // ---- reader / writer API
    let mut out_u = Vec::new();
    match shard_set_union(&a.info, &mut Cursor::new(&a.bytes[..]), &b.info, &mut Cursor::new(&b.bytes[..]), &mut out_u) {
        Ok(info) => {
            let w = expect_union(&out_u, out);
            fails.extend(check_result("union", "shard_set_union", &w, &out_u, Some(&info), &q, &mut st))
        },
        Err(e) => fails.push(("C10/union-error".into(), format!("shard_set_union failed: {e:?}"))),
    }
    let mut out_d = Vec::new();
    match shard_set_difference(&a.info, &mut Cursor::new(&a.bytes[..]), &b.info, &mut Cursor::new(&b.bytes[..]), &mut out_d) {
        Ok(info) => fails.extend(check_result("difference", "shard_set_difference", &want_d, &out_d, Some(&info), &q, &mut st)),
        Err(e) => fails.push(("C10/difference-error".into(), format!("shard_set_difference failed: {e:?}"))),
    }
    out.count("set_operations", 2);

    // ---- file API
    let pa = dir.join(format!("{tag}-a.mdb"));
    let pb = dir.join(format!("{tag}-b.mdb"));
    std::fs::write(&pa, &a.bytes).expect("write shard a");
    std::fs::write(&pb, &b.bytes).expect("write shard b");
    for (op, want, reader_bytes) in [("union", &want_u, &out_u), ("difference", &want_d, &out_d)] {
        let po = dir.join(format!("{tag}-{op}.mdb"));
        let r = if op == "union" { shard_file_union(&pa, &pb, &po) } else { shard_file_difference(&pa, &pb, &po) };
        out.count("set_operations", 1);
        match r {
            Ok((hash, info)) => match std::fs::read(&po) {
                Ok(bytes) => {
                    if hash.hex() + ".mdb" != shard_file_name_of(&bytes) {
                        fails.push((format!("C10/{op}-returned-hash-not-content-hash"), format!("shard_file_{op} returned hash {} but the file it wrote hashes to {}", hash.hex(), shard_file_name_of(&bytes))));
                    }
                    let chosen;
                    let want = if op == "union" {
                        chosen = expect_union(&bytes, out);
                        &chosen
                    } else {
                        want
                    };
                    if &bytes == reader_bytes {
                        out.count("file_api_results_identical_to_reader_api", 1);
                        // same bytes: the record checks above apply; still compare the returned info
                        fails.extend(check_result(op, &format!("shard_file_{op}"), want, &bytes, Some(&info), &[], &mut st));
                    } else {
                        out.count("info:file_api_bytes_differ_from_reader_api", 1);
                        fails.extend(check_result(op, &format!("shard_file_{op}"), want, &bytes, Some(&info), &q, &mut st));
                    }
                },
                Err(e) => fails.push((format!("C10/{op}-output-missing"), format!("shard_file_{op} returned Ok but {po:?} is unreadable: {e}"))),
            },
            Err(e) => fails.push((format!("C10/{op}-error"), format!("shard_file_{op} failed: {e:?}"))),
        }
        let _ = std::fs::remove_file(&po);
    }
    let _ = std::fs::remove_file(&pa);
    let _ = std::fs::remove_file(&pb);
    // stray temp files
    // (the operation writes to a temp file next to the output and renames it)

    // ---- in-memory API
    let ma = build_mem(&a.model, false);
    let mb = build_mem(&b.model, true);
    for (op, want) in [("union", &want_u), ("difference", &want_d)] {
        let r = if op == "union" { ma.union(&mb) } else { ma.difference(&mb) };
        out.count("set_operations", 1);
        match r {
            Ok(m) => match serialize_mem(&m) {
                Ok((bytes, info)) => {
                    if m.shard_file_size() != bytes.len() as u64 {
                        fails.push((format!("C10/{op}-in-memory-size-accounting"), format!("MDBInMemoryShard::{op}(..).shard_file_size() = {} but it serializes to {} bytes", m.shard_file_size(), bytes.len())));
                    }
                    let chosen;
                    let want = if op == "union" {
                        chosen = expect_union(&bytes, out);
                        &chosen
                    } else {
                        want
                    };
                    fails.extend(check_result(op, &format!("MDBInMemoryShard::{op}"), want, &bytes, Some(&info), &q, &mut st));
                },
                Err(e) => fails.push((format!("C10/{op}-error"), format!("in-memory {op} does not serialize: {e}"))),
            },
            Err(e) => fails.push((format!("C10/{op}-error"), format!("MDBInMemoryShard::{op} failed: {e:?}"))),
        }
    }
    out.count("lookups", st.lookups);
    out.count("lookups_present_found", st.present_found);
    out.count("vac:refused_8_colliding_prefixes", st.refused);
    out.count("vac:lookups_past_colliding_prefix", st.past_collision);
    // two inputs that each stay within the reader's limit of seven records per truncated key, a union that does not:
    // the operation succeeds and every record of that key is beyond retrieval (the reader refuses the eighth) - C10
    // says "every record stays retrievable" and names prefix collisions without a bound
    if st.refused > 0 && max_run(&a.model) <= 7 && max_run(&b.model) <= 7 {
        fails.push((
            "C10/union-record-not-retrievable@8-records-share-a-truncated-key".into(),
            format!("the inputs hold at most {} and {} records per truncated key, the union {mr}: {} lookups of stored records are refused with a truncated-hash collision error", max_run(&a.model), max_run(&b.model), st.refused),
        ));
    }
    if !(want_u.is_empty()) {
        out.distinct(format!("pair:{}", vcore::util::hex(&blake3::hash(&[&a.bytes[..], &b.bytes[..]].concat()).as_bytes()[..8])));
    }
    if sample {
        out.sample(json!({"kind": "pair", "first": a.model.describe(), "second": b.model.describe(), "union": want_u.describe(), "difference(first, second) = second minus first": want_d.describe()}));
    }
    for (sig, what) in fails {
        out.violation(&sig, format!("{what} [{desc}]"), replay.clone());
    }
}

// ------------------------------------------------------------------ consolidation: BFS over directory histories

#[derive(Clone, Debug, PartialEq)]
pub enum Op {
    /// write menu shard `menu`; its mtime goes to tie-group slot `slot` (== number of groups + 1: tie with the newest)
    Write { menu: usize, slot: usize },
    Cons { thr: u64 },
}
impl Op {
    fn to_json(&self) -> Value {
        match self {
            Op::Write { menu, slot } => json!({"op": "write", "menu": menu, "slot": slot}),
            Op::Cons { thr } => json!({"op": "consolidate", "threshold": thr}),
        }
    }
    fn from_json(v: &Value) -> Option<Op> {
        match v["op"].as_str()? {
            "write" => Some(Op::Write { menu: v["menu"].as_u64()? as usize, slot: v["slot"].as_u64()? as usize }),
            "consolidate" => Some(Op::Cons { thr: v["threshold"].as_u64()? }),
            _ => None,
        }
    }
}

/// A directory state: file names in mtime order (tie groups, oldest first) + the history reaching it.
#[derive(Clone, Debug)]
pub struct DState {
    pub groups: Vec<Vec<String>>,
    pub hist: Vec<Op>,
}
impl DState {
    fn key(&self) -> String {
        self.groups
            .iter()
            .map(|g| {
                let mut n: Vec<&str> = g.iter().map(|s| &s[..12]).collect();
                n.sort();
                n.join(",")
            })
            .collect::<Vec<_>>()
            .join("|")
    }
    fn names(&self) -> BTreeSet<String> {
        self.groups.iter().flatten().cloned().collect()
    }
}

#[derive(Default)]
pub struct Store {
    pub content: BTreeMap<String, (Arc<Vec<u8>>, Arc<RShard>)>,
}

pub fn menu(tier: Tier) -> Vec<RShard> {
    let al = alphabet(5);
    let a = |f: u8| mk_file(1, al[1], 2, f);
    let bfile = mk_file(0, al[0], 1, 0);
    let c = mk_file(2, al[2], 1, 3); // shares the truncated key of A
    let x = mk_xorb(1, al[1], 2, 0);
    let y = mk_xorb(2, al[2], 1, 0); // shares the truncated key of X
    let z = mk_xorb(3, al[3], 3, 0);
    let mk = |files: Vec<RFile>, xorbs: Vec<RXorb>| {
        let mut s = RShard::default();
        for f in files {
            s.add_file(f);
        }
        for x in xorbs {
            s.add_xorb(x);
        }
        s
    };
    let mut m = vec![
        mk(vec![a(1)], vec![x.clone()]),                     // A with verification, X
        mk(vec![a(2)], vec![y.clone()]),                     // A with metadata (incomparable with the first), Y
        mk(vec![a(0), bfile.clone()], vec![x.clone()]),      // poorer A, B, X again
        mk(vec![], vec![]),                                  // empty shard
        mk(vec![a(3)], vec![x.clone(), y.clone()]),          // == union of the first two
        mk(vec![c.clone()], vec![z.clone()]),                // disjoint, colliding truncated key
    ];
    if tier == Tier::Thorough {
        m.push(mk(vec![bfile, c], vec![x, z]));
    }
    // LAST entry: a shard of xorbs only that is put into the directory WITHOUT its lookup tables (see TABLELESS_LAST)
    m.push(mk(vec![], vec![mk_xorb(4, al[4], 2, 0)]));
    m
}
/// The last menu shard is written by the real writer and then re-exported with the zero key (hashes unchanged) and
/// without file section and lookup tables: a legitimate shard whose footer counts (`num_cas_entries()` etc.) are 0
/// although its xorb section is not empty.
const TABLELESS_LAST: bool = true;

const MTIME_BASE: i64 = 1_000_000_000;

fn set_mtime(p: &Path, secs: i64) {
    let c = std::ffi::CString::new(p.to_string_lossy().as_bytes()).unwrap();
    let ts = [libc::timespec { tv_sec: secs, tv_nsec: 0 }, libc::timespec { tv_sec: secs, tv_nsec: 0 }];
    let r = unsafe { libc::utimensat(libc::AT_FDCWD, c.as_ptr(), ts.as_ptr(), 0) };
    if r != 0 {
        machinery_error(&format!("utimensat {p:?} failed"));
    }
}

fn mtime_secs(p: &Path) -> i64 {
    use std::os::unix::fs::MetadataExt;
    std::fs::metadata(p).map(|m| m.mtime()).unwrap_or(-1)
}

fn is_shard_name(n: &str) -> bool {
    n.len() == 68 && n.ends_with(".mdb") && n[..64].bytes().all(|c| c.is_ascii_hexdigit())
}

/// Parses new content once with the real readers, checks that every scanned record is retrievable
/// through the written lookup tables and that the totals add up, and remembers its model.
fn intern(store: &Mutex<Store>, name: &str, bytes: Vec<u8>, out: &mut Partial, replay: &Value) -> Option<Arc<RShard>> {
    if let Some((_, m)) = store.lock().unwrap().content.get(name) {
        return Some(m.clone());
    }
    let (model, _info, dup) = match scan_to_model(&bytes) {
        Ok(x) => x,
        Err(e) => {
            out.violation("C10/consolidate-output-unreadable", format!("shard file {name} in the directory cannot be scanned: {e}"), replay.clone());
            return None;
        },
    };
    if dup {
        out.violation("C10/consolidate-output-duplicate-key", format!("shard file {name} lists a key twice"), replay.clone());
    }
    let q: Vec<K> = model.files.keys().chain(model.xorbs.keys()).cloned().chain(never_present()).collect();
    let mut st = Stats::default();
    for (shape, what) in check_seekable(&model, &bytes, &q, &q, &mut st, true) {
        out.violation(&map_shape("consolidate-output", &shape), format!("shard file {name}: {what}"), replay.clone());
    }
    out.count("consolidation_outputs_validated", 1);
    let m = Arc::new(model);
    store.lock().unwrap().content.insert(name.to_string(), (Arc::new(bytes), m.clone()));
    Some(m)
}

fn fold_view(names: &BTreeSet<String>, store: &Mutex<Store>) -> RShard {
    let g = store.lock().unwrap();
    let mut v = RShard::default();
    for n in names {
        if let Some((_, m)) = g.content.get(n) {
            v = RShard::union(&v, m);
        }
    }
    v
}

/// Applies one op to a state.  Consolidation runs the real code in a fresh directory.
pub fn apply(st: &DState, op: &Op, menu_names: &[String], dir: &Path, store: &Mutex<Store>, out: &mut Partial) -> Option<DState> {
    let mut hist = st.hist.clone();
    hist.push(op.clone());
    let replay = json!({"lab": "shard_store", "kind": "history", "ops": hist.iter().map(|o| o.to_json()).collect::<Vec<_>>()});
    match op {
        Op::Write { menu, slot } => {
            let name = &menu_names[*menu];
            let mut groups: Vec<Vec<String>> = st.groups.iter().map(|g| g.iter().filter(|n| *n != name).cloned().collect::<Vec<_>>()).filter(|g: &Vec<String>| !g.is_empty()).collect();
            if *slot <= groups.len() {
                groups.insert(*slot, vec![name.clone()]);
            } else if let Some(last) = groups.last_mut() {
                last.push(name.clone());
            } else {
                return None;
            }
            out.count("transitions_write", 1);
            Some(DState { groups, hist })
        },
        Op::Cons { thr } => {
            std::fs::create_dir_all(dir).expect("mkdir");
            let mut names_sorted: Vec<(&String, usize)> = st.groups.iter().enumerate().flat_map(|(gi, g)| g.iter().map(move |n| (n, gi))).collect();
            names_sorted.sort();
            for (n, gi) in &names_sorted {
                let bytes = store.lock().unwrap().content.get(*n).map(|x| x.0.clone()).expect("content of a state file");
                let p = dir.join(n);
                std::fs::write(&p, &bytes[..]).expect("write state file");
                set_mtime(&p, MTIME_BASE + 10 * *gi as i64);
            }
            let before = st.names();
            let view_before = fold_view(&before, store);
            let total: u64 = before.iter().map(|n| store.lock().unwrap().content[n].0.len() as u64).sum();
            out.count("transitions_consolidate", 1);
            let r = std::panic::catch_unwind(std::panic::AssertUnwindSafe(|| consolidate_shards_in_directory(dir, *thr)));
            let returned = match r {
                Err(p) => {
                    let loc = vcore::util::last_panic_loc();
                    let file = loc.rsplit('/').next().unwrap_or("").split(':').next().unwrap_or("").to_string();
                    out.violation(
                        &format!("C10/panic:consolidate@{file}"),
                        format!("consolidate_shards_in_directory(threshold {thr}) panicked at {loc}: {} [directory: {}]", vcore::util::panic_text(&p).chars().take(300).collect::<String>(), st.key()),
                        replay,
                    );
                    let _ = std::fs::remove_dir_all(dir);
                    return None;
                },
                Ok(Err(e)) => {
                    out.violation("C10/consolidate-error", format!("consolidate_shards_in_directory(threshold {thr}) failed: {e:?} [directory: {}]", st.key()), replay);
                    let _ = std::fs::remove_dir_all(dir);
                    return None;
                },
                Ok(Ok(v)) => v,
            };
            // snapshot
            let mut after: BTreeSet<String> = BTreeSet::new();
            let mut rd: Vec<String> = std::fs::read_dir(dir).expect("read_dir").flatten().map(|e| e.file_name().to_string_lossy().to_string()).collect();
            rd.sort();
            for n in &rd {
                if is_shard_name(n) {
                    after.insert(n.clone());
                } else {
                    out.count("info:non_shard_files_left_in_directory", 1);
                }
            }
            let mut ok = true;
            for n in &after {
                let bytes = std::fs::read(dir.join(n)).expect("read shard file");
                if intern(store, n, bytes, out, &replay).is_none() {
                    ok = false;
                }
            }
            // returned shards: exist, are named by their content hash
            let mut returned_names: Vec<String> = vec![];
            for sf in &returned {
                let n = sf.path.file_name().map(|x| x.to_string_lossy().to_string()).unwrap_or_default();
                match std::fs::read(&sf.path) {
                    Err(_) => {
                        out.violation("C10/returned-shard-missing", format!("consolidation (threshold {thr}) returned {n} which does not exist afterwards [directory: {}]", st.key()), replay.clone());
                        ok = false;
                    },
                    Ok(bytes) => {
                        let h = shard_file_name_of(&bytes);
                        if n != h {
                            out.violation("C10/returned-name-not-hash", format!("consolidation returned {n} whose content hashes to {h}"), replay.clone());
                        }
                        if sf.shard_hash.hex() + ".mdb" != h {
                            out.violation("C10/returned-hash-not-content-hash", format!("consolidation returned shard_hash {} for a file whose content hashes to {h}", sf.shard_hash.hex()), replay.clone());
                        }
                        if sf.path.parent().map(|p| p != std::path::absolute(dir).unwrap_or_default()).unwrap_or(true) {
                            out.count("info:returned_path_outside_session_directory", 1);
                        }
                        match MDBShardInfo::load_from_reader(&mut Cursor::new(&bytes[..])) {
                            Ok(i) if i.metadata == sf.shard.metadata => {},
                            _ => out.violation("C10/returned-footer-differs", format!("consolidation returned {n} with shard info that differs from the file's footer"), replay.clone()),
                        }
                    },
                }
                returned_names.push(n);
            }
            if !ok {
                let _ = std::fs::remove_dir_all(dir);
                return None;
            }
            // retrievable records preserved
            let view_after = fold_view(&after, store);
            if view_after != view_before {
                for (k, f) in &view_before.files {
                    match view_after.files.get(k) {
                        None => out.violation("C10/consolidate-loses-record", format!("file {} retrievable before consolidation (threshold {thr}) is in no shard afterwards [directory: {}]", khex(k), st.key()), replay.clone()),
                        Some(g) if g != f => out.violation("C10/consolidate-record-differs", format!("file {}: before {:?}, after {:?}", khex(k), f, g), replay.clone()),
                        _ => {},
                    }
                }
                for (k, x) in &view_before.xorbs {
                    match view_after.xorbs.get(k) {
                        None => out.violation("C10/consolidate-loses-record", format!("xorb {} retrievable before consolidation (threshold {thr}) is in no shard afterwards [directory: {}]", khex(k), st.key()), replay.clone()),
                        Some(y) if y != x => out.violation("C10/consolidate-record-differs", format!("xorb {}: before {:?}, after {:?}", khex(k), x, y), replay.clone()),
                        _ => {},
                    }
                }
                for k in view_after.files.keys().filter(|k| !view_before.files.contains_key(*k)).chain(view_after.xorbs.keys().filter(|k| !view_before.xorbs.contains_key(*k))) {
                    out.violation("C10/consolidate-invents-record", format!("key {} appears after consolidation (threshold {thr}) only [directory: {}]", khex(k), st.key()), replay.clone());
                }
            }
            // deleted inputs are covered by one returned shard
            let ret_models: Vec<Arc<RShard>> = {
                let g = store.lock().unwrap();
                returned_names.iter().filter_map(|n| g.content.get(n).map(|x| x.1.clone())).collect()
            };
            let mut deleted = 0;
            for n in before.difference(&after) {
                deleted += 1;
                let m = store.lock().unwrap().content[n].1.clone();
                if !ret_models.iter().any(|r| m.subsumed_by(r)) {
                    out.violation(
                        "C10/consolidate-deleted-unmerged-shard",
                        format!("consolidation (threshold {thr}) deleted {n} ({}) but no returned shard holds all its records [directory: {}]", m.describe(), st.key()),
                        replay.clone(),
                    );
                }
            }
            let ret_view = ret_models.iter().fold(RShard::default(), |a, m| RShard::union(&a, m));
            if ret_view != view_after {
                out.count("info:returned_shards_do_not_cover_the_directory", 1);
            }
            {
                let mut rn = returned_names.clone();
                rn.sort();
                rn.dedup();
                if rn.len() != returned_names.len() {
                    if hist.len() <= 4 && out.notes.len() < 2 {
                        out.notes.push(format!("consolidation returned the same path twice: history {} returned {:?}", serde_json::to_string(&hist.iter().map(|o| o.to_json()).collect::<Vec<_>>()).unwrap(), returned_names.iter().map(|n| n[..12].to_string()).collect::<Vec<_>>()));
                    }
                    out.count("info:consolidation_returned_a_path_twice", 1);
                }
            }
            // new state: untouched files keep their group, touched / new ones become the newest, in returned order
            let mut groups: Vec<Vec<String>> = vec![];
            let mut touched: Vec<String> = vec![];
            for (gi, g) in st.groups.iter().enumerate() {
                let mut keep = vec![];
                for n in g {
                    if after.contains(n) {
                        if mtime_secs(&dir.join(n)) == MTIME_BASE + 10 * gi as i64 {
                            keep.push(n.clone());
                        } else {
                            touched.push(n.clone());
                        }
                    }
                }
                if !keep.is_empty() {
                    groups.push(keep);
                }
            }
            let created: Vec<String> = after.difference(&before).cloned().collect();
            let mut appended: BTreeSet<String> = BTreeSet::new();
            for n in returned_names.iter().chain(touched.iter()).chain(created.iter()) {
                if (touched.contains(n) || created.contains(n)) && appended.insert(n.clone()) {
                    groups.push(vec![n.clone()]);
                }
            }
            // vacuity
            if deleted > 0 || !created.is_empty() || !touched.is_empty() {
                out.count("vac:consolidations_that_merged", 1);
            } else {
                out.count("vac:consolidations_that_merged_nothing", 1);
            }
            if !touched.is_empty() {
                out.count("vac:consolidations_whose_output_equals_an_existing_file", 1);
            }
            if deleted > 0 && after.intersection(&before).any(|n| !touched.contains(n)) {
                out.count("vac:consolidations_merging_only_part_of_the_directory", 1);
            }
            if st.groups.iter().any(|g| g.len() > 1) {
                out.count("vac:consolidations_with_mtime_ties", 1);
            }
            if after.len() >= 2 && deleted > 0 {
                out.count("vac:consolidations_leaving_several_shards", 1);
            }
            if before.len() >= 2 && total >= *thr && *thr > 0 {
                out.count("vac:consolidations_limited_by_threshold", 1);
            }
            out.max("max:files_in_directory", before.len() as u64);
            if deleted >= 2 && after.len() >= 2 && st.hist.len() >= 3 {
                out.sample(json!({"kind": "history", "ops": hist.iter().map(|o| o.to_json()).collect::<Vec<_>>(), "directory_before": st.key(), "directory_after": DState { groups: groups.clone(), hist: vec![] }.key(), "returned": returned_names.iter().map(|n| n[..12].to_string()).collect::<Vec<_>>()}));
            }
            let _ = std::fs::remove_dir_all(dir);
            Some(DState { groups, hist })
        },
    }
}

fn ops_of(st: &DState, nmenu: usize, thresholds: &[u64], menu_names: &[String]) -> Vec<Op> {
    let mut v = vec![];
    for m in 0..nmenu {
        let g = st.groups.iter().filter(|g| !(g.len() == 1 && g[0] == menu_names[m])).count();
        for slot in 0..=g {
            v.push(Op::Write { menu: m, slot });
        }
        if g >= 1 {
            v.push(Op::Write { menu: m, slot: g + 1 });
        }
    }
    for t in thresholds {
        v.push(Op::Cons { thr: *t });
    }
    v
}

pub fn run_c10(args: &Args, run: &mut Run) -> (Partial, u64, String) {
    let scratch = Scratch::new("shardc10");
    let tier = args.tier;
    let mut all = Partial::default();
    let replay = crate::replay_value(args);

    // ---------------- part 1: all ordered pairs
    let fam: Vec<Ser> = match &replay {
        Some(r) if r["kind"] == "pair" => serialize_family(&[RShard::from_json(&r["a"]), RShard::from_json(&r["b"])]),
        Some(_) => vec![],
        None => serialize_family(&family(tier)),
    };
    let pairs: Vec<(usize, usize)> = match &replay {
        Some(r) if r["kind"] == "pair" => vec![(0, 1)],
        Some(_) => vec![],
        None => (0..fam.len()).flat_map(|i| (0..fam.len()).map(move |j| (i, j))).collect(),
    };
    let parts: Vec<Partial> = std::thread::scope(|sc| {
        let hs: Vec<_> = (0..THREADS)
            .map(|t| {
                let (fam, pairs) = (&fam, &pairs);
                let dir = scratch.sub(&format!("p{t}"));
                sc.spawn(move || {
                    vcore::util::quiet_panics();
                    let mut out = Partial::default();
                    for (n, (i, j)) in pairs.iter().enumerate() {
                        if n % THREADS == t {
                            check_pair(&fam[*i], &fam[*j], &dir, &format!("{n}"), n == pairs.len() / 3 || n == pairs.len() / 2 + 7, &mut out);
                        }
                    }
                    out
                })
            })
            .collect();
        hs.into_iter().map(|h| h.join().expect("pair worker")).collect()
    });
    for p in parts {
        all.merge(p);
    }
    all.count("family_shards", fam.len() as u64);

    // ---------------- part 2: BFS over directory histories
    let mn = menu(tier);
    let store = Mutex::new(Store::default());
    let mut menu_names = vec![];
    for (i, m) in mn.iter().enumerate() {
        // the real writer, once per menu shard, in its own directory
        let d = scratch.sub(&format!("menu{i}"));
        let mem = build_mem(m, false);
        let path = mem.write_to_directory(&d).unwrap_or_else(|e| machinery_error(&format!("menu shard {i} does not write: {e:?}")));
        let path = if TABLELESS_LAST && i + 1 == mn.len() {
            let sf = mdb_shard::shard_file_handle::MDBShardFile::load_from_file(&path).unwrap_or_else(|e| machinery_error(&format!("menu shard {i} does not load: {e:?}")));
            let d2 = scratch.sub(&format!("menu{i}t"));
            let e = sf
                .export_as_keyed_shard(&d2, merklehash::MerkleHash::default(), std::time::Duration::from_secs(3_000_000_000), false, false, false)
                .unwrap_or_else(|e| machinery_error(&format!("menu shard {i} does not export without tables: {e:?}")));
            if e.shard.metadata.cas_lookup_num_entry != 0 || e.shard.metadata.chunk_lookup_num_entry != 0 {
                machinery_error("the table-less menu shard has lookup tables");
            }
            e.path.clone()
        } else {
            path
        };
        let bytes = std::fs::read(&path).expect("menu shard file");
        let name = path.file_name().unwrap().to_string_lossy().to_string();
        if name != shard_file_name_of(&bytes) {
            all.violation("C10/written-name-not-hash", format!("write_to_directory named menu shard {i} {name}, content hashes to {}", shard_file_name_of(&bytes)), json!({"lab": "shard_store", "kind": "history", "ops": [{"op": "write", "menu": i, "slot": 0}]}));
        }
        match scan_to_model(&bytes) {
            Ok((got, _, _)) if got == *m => {},
            o => machinery_error(&format!("menu shard {i} does not read back as written: {:?}", o.map(|x| x.0.describe()))),
        }
        store.lock().unwrap().content.insert(name.clone(), (Arc::new(bytes), Arc::new(m.clone())));
        menu_names.push(name);
    }
    let mut sizes: Vec<u64> = menu_names.iter().map(|n| store.lock().unwrap().content[n].0.len() as u64).collect();
    sizes.sort();
    let thresholds: Vec<u64> = vec![0, sizes[0] + sizes[1] + 1, sizes[sizes.len() - 1] + sizes[sizes.len() - 2] + 1, 1 << 26, u64::MAX];
    run.set("menu", json!(mn.iter().map(|m| m.describe()).collect::<Vec<_>>()));
    run.set("thresholds", json!(thresholds));

    let depth = std::env::var("LAB_SHARD_DEPTH").ok().and_then(|s| s.parse().ok()).unwrap_or(if args.report_tier == Tier::Quick { 5usize } else { 6usize }); // the quick command runs the thorough family and menu one level less deep
    let root = DState { groups: vec![], hist: vec![] };
    let mut visited: BTreeSet<String> = BTreeSet::new();
    visited.insert(root.key());
    let mut frontier = vec![root];
    let mut transitions = 0u64;
    let mut max_depth = 0usize;
    let dirctr = std::sync::atomic::AtomicU64::new(0);

    if let Some(r) = &replay {
        if r["kind"] == "history" {
            let ops: Vec<Op> = r["ops"].as_array().cloned().unwrap_or_default().iter().filter_map(Op::from_json).collect();
            let mut st = DState { groups: vec![], hist: vec![] };
            let mut out = Partial::default();
            for (i, op) in ops.iter().enumerate() {
                match apply(&st, op, &menu_names, &scratch.root.join(format!("replay{i}")), &store, &mut out) {
                    Some(n) => st = n,
                    None => break,
                }
                transitions += 1;
            }
            println!("replayed history of {} ops; final directory: {}", ops.len(), st.key());
            all.merge(out);
        }
        frontier.clear();
    }

    for d in 0..depth {
        if frontier.is_empty() {
            break;
        }
        let results: Vec<(Partial, Vec<DState>, u64)> = std::thread::scope(|sc| {
            let hs: Vec<_> = (0..THREADS)
                .map(|t| {
                    let (frontier, store, menu_names, thresholds, scratch, dirctr) = (&frontier, &store, &menu_names, &thresholds, &scratch, &dirctr);
                    let nmenu = mn.len();
                    sc.spawn(move || {
                        vcore::util::quiet_panics();
                        let mut out = Partial::default();
                        let mut next = vec![];
                        let mut tr = 0u64;
                        for (i, st) in frontier.iter().enumerate() {
                            if i % THREADS != t {
                                continue;
                            }
                            for op in ops_of(st, nmenu, thresholds, menu_names) {
                                let id = dirctr.fetch_add(1, std::sync::atomic::Ordering::Relaxed);
                                let dir: PathBuf = scratch.root.join(format!("h{id}"));
                                tr += 1;
                                if let Some(n) = apply(st, &op, menu_names, &dir, store, &mut out) {
                                    next.push(n);
                                }
                            }
                        }
                        (out, next, tr)
                    })
                })
                .collect();
            hs.into_iter().map(|h| h.join().expect("bfs worker")).collect()
        });
        let mut next_frontier = vec![];
        for (p, next, tr) in results {
            all.merge(p);
            transitions += tr;
            for n in next {
                if visited.insert(n.key()) {
                    next_frontier.push(n);
                }
            }
        }
        // deterministic order of the next level
        next_frontier.sort_by_key(|s| s.key());
        if !next_frontier.is_empty() {
            max_depth = d + 1;
        }
        all.count(&format!("states_at_depth_{}", d + 1), next_frontier.len() as u64);
        frontier = next_frontier;
    }
    for k in visited.iter().filter(|k| !k.is_empty()) {
        all.distinct(format!("state:{k}"));
    }
    let cons = all.get("transitions_consolidate");
    run.set("states", json!(visited.len() as u64));
    run.set("transitions", json!(transitions.max(1)));
    run.set("traces_validated_against_impl", json!(cons));
    run.set("max_depth", json!(max_depth));
    run.set("depth_bound", json!(depth));
    run.set("ordered_pairs", json!(pairs.len()));
    run.set("distinct_shard_files_seen", json!(store.lock().unwrap().content.len()));
    for s in visited.iter().filter(|k| k.contains('|') && k.contains(',')).take(1) {
        all.sample(json!({"kind": "state", "directory (12-hex name prefixes; '|' separates mtime groups oldest first, ',' joins equal mtimes)": s}));
    }
    run.assume("difference(first, second) is encoded as the code documents it: the records of the SECOND shard whose keys are not in the first");
    run.assume("two records with the same key agree on every piece both carry (same segments; same verification / metadata where both have it), as set_operations.rs states; a file on both sides must come out with the union of the optional pieces");
    run.assume("directory states are materialised in a fresh directory per consolidation (file bytes + explicit mtimes), which is equivalent to replaying the history because consolidation reads only names, bytes and mtimes; files a consolidation creates or rewrites become the newest, in returned order");
    run.assume("thresholds explored: 0, one that merges only the two smallest menu shards, one that merges any two menu shards but not more, 64 MiB, u64::MAX (no limit)");
    let evals = all.get("set_operations") + transitions;
    let rule = "part 1: every ordered pair (incl. identical) of the shard family (subsets of files A,B[,C] with B sharing A's truncated key x flag patterns incl. mixed ones x xorb subsets, extreme-key shards, collision runs whose unions hold 7 and 8 records per truncated key, the empty shard) through shard_set_union/difference, shard_file_union/difference and MDBInMemoryShard::union/difference, each result scanned and every key of either input plus absent keys looked up; part 2: breadth-first search from the empty directory over {write menu shard (one of them a xorbs-only shard without lookup tables) at every mtime slot or tied with the newest, consolidate at 5 thresholds incl. u64::MAX}, frontier deduplicated by (file names, mtime order), every consolidation executed by the real code in a fresh directory; a case is distinct non-trivial when the pair of serialized inputs is new and the union is non-empty".to_string();
    (all, evals, rule)
}

//! Runs the real shard readers/writers on one serialized shard and compares every answer with the
//! reference model (`shard_model`).  Shared by the C09 and C10 parts of lab_shard_store.
//! Included by the lab binary with `#[path]`.

#![allow(dead_code)]

use std::io::{Cursor, Read, Seek, SeekFrom};

use mdb_shard::cas_structs::MDBCASInfo;
use mdb_shard::error::MDBShardError;
use mdb_shard::file_structs::MDBFileInfo;
use mdb_shard::shard_in_memory::MDBInMemoryShard;
use mdb_shard::streaming_shard::{process_shard_stream, process_shard_stream_async, MDBMinimalShard};
use mdb_shard::MDBShardInfo;

use crate::shard_model::*;

/// One failed expectation: (shape, text).  The caller turns the shape into a signature.
pub type Fail = (String, String);

fn fail(v: &mut Vec<Fail>, shape: &str, what: String) {
    if v.len() < 8 {
        v.push((shape.to_string(), what));
    }
}

/// Counters a check hands back (merged into the Partial by the caller).
#[derive(Default, Debug, Clone)]
pub struct Stats {
    pub lookups: u64,
    pub present_found: u64,
    pub absent_not_found: u64,
    pub past_collision: u64,
    pub refused: u64,
    pub refused_quiet: u64,
    pub scans: u64,
}

pub fn build_mem(s: &RShard, reverse: bool) -> MDBInMemoryShard {
    let mut m = MDBInMemoryShard::default();
    let files: Vec<&RFile> = if reverse { s.files.values().rev().collect() } else { s.files.values().collect() };
    let xorbs: Vec<&RXorb> = if reverse { s.xorbs.values().rev().collect() } else { s.xorbs.values().collect() };
    for x in xorbs {
        m.add_cas_block(to_real_xorb(x)).expect("add_cas_block");
    }
    for f in files {
        m.add_file_reconstruction_info(to_real_file(f)).expect("add_file_reconstruction_info");
    }
    m
}

/// The same final content as `build_mem`, reached by adding records more than once: mode 1 adds every record
/// twice; mode 2 first adds, under each key, a DIFFERENT record (the file without its last segment and optional
/// pieces, the xorb without its last chunk) and then the real one, which replaces it.
pub fn build_mem_readded(s: &RShard, mode: u8) -> MDBInMemoryShard {
    let mut m = MDBInMemoryShard::default();
    for x in s.xorbs.values() {
        if mode == 2 {
            let mut y = x.clone();
            y.chunks.pop();
            m.add_cas_block(to_real_xorb(&y)).expect("add_cas_block");
        } else if mode == 3 {
            // a LARGER record first (one more chunk), then the real one replaces it
            let mut y = x.clone();
            if let Some(c) = y.chunks.last().cloned() {
                y.chunks.push(c);
            }
            m.add_cas_block(to_real_xorb(&y)).expect("add_cas_block");
        } else {
            m.add_cas_block(to_real_xorb(x)).expect("add_cas_block");
        }
        m.add_cas_block(to_real_xorb(x)).expect("add_cas_block");
    }
    for f in s.files.values() {
        if mode == 2 {
            let mut g = f.clone();
            g.segs.pop();
            g.verif = None;
            g.sha = None;
            m.add_file_reconstruction_info(to_real_file(&g)).expect("add_file_reconstruction_info");
        } else if mode == 3 {
            // a LARGER record first (one more segment, both extensions), then the real one replaces it
            let mut g = f.clone();
            let extra = g.segs.last().cloned().unwrap_or(RSeg { cas: f.hash, flags: 0, bytes: 1, start: 0, end: 1 });
            g.segs.push(extra);
            g.verif = Some(vec![f.hash; g.segs.len()]);
            g.sha = Some(f.hash);
            m.add_file_reconstruction_info(to_real_file(&g)).expect("add_file_reconstruction_info");
        } else {
            m.add_file_reconstruction_info(to_real_file(f)).expect("add_file_reconstruction_info");
        }
        m.add_file_reconstruction_info(to_real_file(f)).expect("add_file_reconstruction_info");
    }
    m
}

/// A shard whose records were added more than once serializes like the plain one and accounts for its size.
pub fn check_readded(want: &RShard, plain_bytes: &[u8]) -> Vec<Fail> {
    let mut v = vec![];
    for mode in [1u8, 2, 3] {
        let m = build_mem_readded(want, mode);
        match serialize_mem(&m) {
            Ok((b, _)) => {
                if b != plain_bytes {
                    fail(&mut v, "readded-serializes-differently", format!("records added twice (mode {mode}) serialize to {} bytes that differ from the shard built once ({} bytes)", b.len(), plain_bytes.len()));
                }
                if m.shard_file_size() != b.len() as u64 {
                    fail(&mut v, "size-accounting", format!("records added twice (mode {mode}): shard_file_size() {} != serialized length {}", m.shard_file_size(), b.len()));
                }
            },
            Err(e) => fail(&mut v, "serialize-error", format!("records added twice (mode {mode}): {e}")),
        }
    }
    v
}

pub fn serialize_mem(m: &MDBInMemoryShard) -> Result<(Vec<u8>, MDBShardInfo), String> {
    let mut b = Vec::new();
    let info = MDBShardInfo::serialize_from(&mut b, m).map_err(|e| format!("serialize_from: {e:?}"))?;
    Ok((b, info))
}

pub fn lookup_xorb<R: Read + Seek>(info: &MDBShardInfo, r: &mut R, k: &K) -> Result<(Option<MDBCASInfo>, Vec<u32>), MDBShardError> {
    let mut dest = [0u32; 8];
    let n = info.get_cas_info_index_by_hash(r, &mh(k), &mut dest)?;
    let idx: Vec<u32> = dest.iter().take(n).copied().collect();
    for &i in &idx {
        r.seek(SeekFrom::Start(info.metadata.cas_info_offset + ENTRY * i as u64))?;
        if let Some(c) = MDBCASInfo::deserialize(r)? {
            if c.metadata.cas_hash == mh(k) {
                return Ok((Some(c), idx));
            }
        }
    }
    Ok((None, idx))
}

fn is_refusal(e: &MDBShardError) -> bool {
    matches!(e, MDBShardError::TruncatedHashCollisionError(_))
}

/// Scan of a serialized shard with the seekable reader into a plain shard (None + text on error).
pub fn scan_to_model(bytes: &[u8]) -> Result<(RShard, MDBShardInfo, bool), String> {
    let mut c = Cursor::new(bytes);
    let info = MDBShardInfo::load_from_reader(&mut c).map_err(|e| format!("load_from_reader: {e:?}"))?;
    let files = info.read_all_file_info_sections(&mut c).map_err(|e| format!("read_all_file_info_sections: {e:?}"))?;
    let xorbs = info.read_all_cas_blocks_full(&mut c).map_err(|e| format!("read_all_cas_blocks_full: {e:?}"))?;
    let mut s = RShard::default();
    let mut dup = false;
    for f in &files {
        let sf = from_real_file(f);
        if s.files.insert(sf.rec.hash, sf.rec).is_some() {
            dup = true;
        }
    }
    for x in &xorbs {
        let sx = from_real_xorb(x);
        if s.xorbs.insert(sx.rec.hash, sx.rec).is_some() {
            dup = true;
        }
    }
    Ok((s, info, dup))
}

/// Lookups, scans, lookup tables and totals of `bytes` against `want` through the seekable reader.
/// `qf` / `qx`: file / xorb keys to query (present and absent ones).
pub fn check_seekable(want: &RShard, bytes: &[u8], qf: &[K], qx: &[K], st: &mut Stats, scans: bool) -> Vec<Fail> {
    let mut v = vec![];
    let mut c = Cursor::new(bytes);
    let info = match MDBShardInfo::load_from_reader(&mut c) {
        Ok(i) => i,
        Err(e) => {
            fail(&mut v, "load-error", format!("load_from_reader failed: {e:?}"));
            return v;
        },
    };
    let fidx = want.file_index();
    let xidx = want.xorb_index();

    // ---- file lookups
    for k in qf {
        st.lookups += 1;
        let run = want.file_prefix_run(k);
        let stored = want.files.get(k);
        // index level
        let mut dest = [0u32; 8];
        match info.get_file_info_index_by_hash(&mut c, &mh(k), &mut dest) {
            Ok(n) => {
                if run <= 7 {
                    let mut got: Vec<u32> = dest.iter().take(n).copied().collect();
                    got.sort();
                    let mut exp: Vec<u32> = want.files.keys().filter(|h| h[0] == k[0]).map(|h| fidx[h]).collect();
                    exp.sort();
                    if got != exp {
                        fail(&mut v, "lookup-table-wrong", format!("file key {}: lookup table yields entry indices {got:?}, records with that truncated key are at {exp:?}", khex(k)));
                    }
                }
            },
            Err(e) if is_refusal(&e) && run >= 8 => {},
            Err(e) => fail(&mut v, "lookup-error", format!("file key {} (truncated-key run {run}): index lookup failed: {e:?}", khex(k))),
        }
        match info.get_file_reconstruction_info(&mut c, &mh(k)) {
            Ok(Some(rec)) => {
                let seen = from_real_file(&rec);
                match stored {
                    Some(w) if file_matches(&seen, w) => {
                        st.present_found += 1;
                        if run >= 2 && want.files.keys().find(|h| h[0] == k[0]) != Some(k) {
                            st.past_collision += 1;
                        }
                    },
                    Some(w) => fail(&mut v, "record-differs", format!("file key {}: stored {:?}, lookup returned {:?}", khex(k), w, seen)),
                    None => fail(&mut v, "absent-key-found", format!("file key {} is not in the shard but lookup returned {:?}", khex(k), seen.rec)),
                }
            },
            Ok(None) => match stored {
                Some(_) if run <= 7 => fail(&mut v, "present-key-not-found", format!("file key {} (truncated-key run {run}) is stored but lookup returned not-found", khex(k))),
                Some(_) => st.refused_quiet += 1,
                None => st.absent_not_found += 1,
            },
            Err(e) if is_refusal(&e) && run >= 8 => st.refused += 1,
            Err(e) => fail(&mut v, "lookup-error", format!("file key {} (truncated-key run {run}): {e:?}", khex(k))),
        }
    }
    // ---- xorb lookups
    for k in qx {
        st.lookups += 1;
        let run = want.xorb_prefix_run(k);
        let stored = want.xorbs.get(k);
        match lookup_xorb(&info, &mut c, k) {
            Ok((found, mut idx)) => {
                if run <= 7 {
                    idx.sort();
                    let mut exp: Vec<u32> = want.xorbs.keys().filter(|h| h[0] == k[0]).map(|h| xidx[h]).collect();
                    exp.sort();
                    if idx != exp {
                        fail(&mut v, "lookup-table-wrong", format!("xorb key {}: lookup table yields entry indices {idx:?}, records with that truncated key are at {exp:?}", khex(k)));
                    }
                }
                match (found, stored) {
                    (Some(rec), Some(w)) => {
                        let seen = from_real_xorb(&rec);
                        if xorb_matches(&seen, w) {
                            st.present_found += 1;
                            if run >= 2 && want.xorbs.keys().find(|h| h[0] == k[0]) != Some(k) {
                                st.past_collision += 1;
                            }
                        } else {
                            fail(&mut v, "record-differs", format!("xorb key {}: stored {:?}, lookup returned {:?}", khex(k), w, seen));
                        }
                    },
                    (Some(rec), None) => fail(&mut v, "absent-key-found", format!("xorb key {} is not in the shard but lookup returned {:?}", khex(k), from_real_xorb(&rec).rec)),
                    (None, Some(_)) if run <= 7 => fail(&mut v, "present-key-not-found", format!("xorb key {} (truncated-key run {run}) is stored but lookup returned not-found", khex(k))),
                    (None, Some(_)) => st.refused_quiet += 1,
                    (None, None) => st.absent_not_found += 1,
                }
            },
            Err(e) if is_refusal(&e) && run >= 8 => st.refused += 1,
            Err(e) => fail(&mut v, "lookup-error", format!("xorb key {} (truncated-key run {run}): {e:?}", khex(k))),
        }
    }

    if !scans {
        return v;
    }
    // ---- scans
    st.scans += 1;
    match info.read_all_file_info_sections(&mut c) {
        Ok(list) => {
            let mut got: Vec<SeenFile> = list.iter().map(from_real_file).collect();
            got.sort_by(|a, b| a.rec.cmp(&b.rec));
            let wantv: Vec<&RFile> = want.files.values().collect();
            compare_file_lists(&mut v, "file scan", &got, &wantv);
        },
        Err(e) => fail(&mut v, "scan-error", format!("read_all_file_info_sections: {e:?}")),
    }
    match info.read_all_cas_blocks_full(&mut c) {
        Ok(list) => {
            let mut got: Vec<SeenXorb> = list.iter().map(from_real_xorb).collect();
            got.sort_by(|a, b| a.rec.cmp(&b.rec));
            let wantv: Vec<&RXorb> = want.xorbs.values().collect();
            compare_xorb_lists(&mut v, "xorb scan", &got, &wantv);
        },
        Err(e) => fail(&mut v, "scan-error", format!("read_all_cas_blocks_full: {e:?}")),
    }
    match info.read_all_cas_blocks(&mut c) {
        Ok(list) => {
            let mut got: Vec<(K, u32, u64)> = list.iter().map(|(h, pos)| (kk(&h.cas_hash), h.num_entries, *pos)).collect();
            got.sort();
            let mut exp: Vec<(K, u32, u64)> =
                want.xorbs.iter().map(|(k, x)| (*k, x.chunks.len() as u32, info.metadata.cas_info_offset + ENTRY * xidx[k] as u64)).collect();
            exp.sort();
            if got != exp {
                fail(&mut v, "scan-differs", format!("read_all_cas_blocks lists (hash, entries, position) {got:?}, expected {exp:?}"));
            }
        },
        Err(e) => fail(&mut v, "scan-error", format!("read_all_cas_blocks: {e:?}")),
    }
    // xorb lookup table
    match info.read_full_cas_lookup(&mut c) {
        Ok(list) => {
            if list.windows(2).any(|w| w[0].0 > w[1].0) {
                fail(&mut v, "lookup-table-wrong", format!("xorb lookup table is not sorted by truncated key: {list:?}"));
            }
            let mut got = list.clone();
            got.sort();
            let mut exp: Vec<(u64, u32)> = want.xorbs.keys().map(|k| (k[0], xidx[k])).collect();
            exp.sort();
            if got != exp {
                fail(&mut v, "lookup-table-wrong", format!("xorb lookup table holds {got:?}, expected {exp:?}"));
            }
        },
        Err(e) => fail(&mut v, "scan-error", format!("read_full_cas_lookup: {e:?}")),
    }
    // file lookup table (raw: the format documents a sorted Vec<(u64, u32)> at file_lookup_offset)
    {
        let off = info.metadata.file_lookup_offset as usize;
        let n = info.metadata.file_lookup_num_entry as usize;
        if off + n * 12 > bytes.len() {
            fail(&mut v, "lookup-table-wrong", format!("file lookup table [{off}, +{n} entries) exceeds the shard ({} bytes)", bytes.len()));
        } else {
            let mut list = vec![];
            for i in 0..n {
                let p = off + i * 12;
                list.push((u64::from_le_bytes(bytes[p..p + 8].try_into().unwrap()), u32::from_le_bytes(bytes[p + 8..p + 12].try_into().unwrap())));
            }
            if list.windows(2).any(|w| w[0].0 > w[1].0) {
                fail(&mut v, "lookup-table-wrong", format!("file lookup table is not sorted by truncated key: {list:?}"));
            }
            list.sort();
            let mut exp: Vec<(u64, u32)> = want.files.keys().map(|k| (k[0], fidx[k])).collect();
            exp.sort();
            if list != exp {
                fail(&mut v, "lookup-table-wrong", format!("file lookup table holds {list:?}, expected {exp:?}"));
            }
        }
    }
    // chunk lookup table
    match info.read_all_truncated_hashes(&mut c) {
        Ok(list) => {
            if info.metadata.chunk_lookup_num_entry != 0 && list.windows(2).any(|w| w[0].0 > w[1].0) {
                fail(&mut v, "lookup-table-wrong", "chunk lookup table is not sorted by truncated key".to_string());
            }
            let mut got = list.clone();
            got.sort();
            let exp = want.chunk_table();
            if got != exp {
                fail(&mut v, "lookup-table-wrong", format!("chunk lookup table holds {} entries {:?}.., expected {} entries {:?}..", got.len(), &got[..got.len().min(6)], exp.len(), &exp[..exp.len().min(6)]));
            }
        },
        Err(e) => fail(&mut v, "scan-error", format!("read_all_truncated_hashes: {e:?}")),
    }
    // file info ranges (streaming from the start)
    {
        let mut c2 = Cursor::new(bytes);
        match MDBShardInfo::read_file_info_ranges(&mut c2) {
            Ok(list) => {
                let mut got: Vec<(K, u64, Option<u64>, Option<K>)> =
                    list.iter().map(|(h, (a, b), ver, sha)| (kk(h), (b - a) / ENTRY, ver.map(|(a, b)| (b - a) / ENTRY), sha.as_ref().map(kk))).collect();
                got.sort();
                let mut exp: Vec<(K, u64, Option<u64>, Option<K>)> =
                    want.files.values().map(|f| (f.hash, f.segs.len() as u64, f.verif.as_ref().map(|x| x.len() as u64), f.sha)).collect();
                exp.sort();
                if got != exp {
                    fail(&mut v, "scan-differs", format!("read_file_info_ranges lists {got:?}, expected {exp:?}"));
                }
            },
            Err(e) => fail(&mut v, "scan-error", format!("read_file_info_ranges: {e:?}")),
        }
    }
    // ---- counts and totals
    let t = [
        ("num_file_entries", info.num_file_entries() as u64, want.files.len() as u64),
        ("num_cas_entries", info.num_cas_entries() as u64, want.xorbs.len() as u64),
        ("total_num_chunks", info.total_num_chunks() as u64, want.num_chunks()),
        ("num_bytes", info.num_bytes(), bytes.len() as u64),
        ("materialized_bytes", info.materialized_bytes(), want.materialized()),
        ("stored_bytes", info.stored_bytes(), want.stored()),
        ("stored_bytes_on_disk", info.stored_bytes_on_disk(), want.stored_on_disk()),
    ];
    for (name, got, exp) in t {
        if got != exp {
            fail(&mut v, "totals-wrong", format!("{name} of the serialized shard is {got}, the records give {exp}"));
        }
    }
    v
}

fn compare_file_lists(v: &mut Vec<Fail>, what: &str, got: &[SeenFile], want: &[&RFile]) {
    for w in want {
        let same_key: Vec<&SeenFile> = got.iter().filter(|g| g.rec.hash == w.hash).collect();
        if same_key.is_empty() {
            fail(v, "scan-misses-record", format!("{what}: file {} is stored but not listed", khex(&w.hash)));
        } else if same_key.len() > 1 {
            fail(v, "scan-duplicates-record", format!("{what}: file {} listed {} times", khex(&w.hash), same_key.len()));
        } else if !file_matches(same_key[0], w) {
            fail(v, "scan-record-differs", format!("{what}: file {} stored as {:?}, listed as {:?}", khex(&w.hash), w, same_key[0]));
        }
    }
    for g in got {
        if !want.iter().any(|w| w.hash == g.rec.hash) {
            fail(v, "scan-invents-record", format!("{what}: lists file {} which was never stored", khex(&g.rec.hash)));
        }
    }
}

fn compare_xorb_lists(v: &mut Vec<Fail>, what: &str, got: &[SeenXorb], want: &[&RXorb]) {
    for w in want {
        let same_key: Vec<&SeenXorb> = got.iter().filter(|g| g.rec.hash == w.hash).collect();
        if same_key.is_empty() {
            fail(v, "scan-misses-record", format!("{what}: xorb {} is stored but not listed", khex(&w.hash)));
        } else if same_key.len() > 1 {
            fail(v, "scan-duplicates-record", format!("{what}: xorb {} listed {} times", khex(&w.hash), same_key.len()));
        } else if !xorb_matches(same_key[0], w) {
            fail(v, "scan-record-differs", format!("{what}: xorb {} stored as {:?}, listed as {:?}", khex(&w.hash), w, same_key[0]));
        }
    }
    for g in got {
        if !want.iter().any(|w| w.hash == g.rec.hash) {
            fail(v, "scan-invents-record", format!("{what}: lists xorb {} which was never stored", khex(&g.rec.hash)));
        }
    }
}

/// A reader that is `Read` only (no `Seek`), fed in small pieces to exercise short reads.
pub struct Dribble<'a> {
    pub data: &'a [u8],
    pub pos: usize,
    pub step: usize,
}
impl Read for Dribble<'_> {
    fn read(&mut self, buf: &mut [u8]) -> std::io::Result<usize> {
        let n = buf.len().min(self.step).min(self.data.len() - self.pos);
        buf[..n].copy_from_slice(&self.data[self.pos..self.pos + n]);
        self.pos += n;
        Ok(n)
    }
}

type Views = (Vec<SeenFile>, Vec<SeenXorb>, Vec<String>);

fn file_view_to_seen(fv: &mdb_shard::file_structs::MDBFileInfoView, notes: &mut Vec<String>) -> Option<SeenFile> {
    // through the view's own serialization
    let mut b = Vec::new();
    if let Err(e) = fv.serialize(&mut b) {
        notes.push(format!("file view serialize: {e:?}"));
        return None;
    }
    if b.len() != fv.byte_size() {
        notes.push(format!("file view byte_size {} but serialized {}", fv.byte_size(), b.len()));
    }
    let rec = match MDBFileInfo::deserialize(&mut &b[..]) {
        Ok(Some(r)) => r,
        o => {
            notes.push(format!("file view does not re-parse: {o:?}"));
            return None;
        },
    };
    let seen = from_real_file(&rec);
    // and through the accessors
    if kk(&fv.file_hash()) != seen.rec.hash || fv.file_flags() != seen.raw_flags || fv.num_entries() != seen.rec.segs.len() {
        notes.push(format!("file view accessors disagree with its bytes for {}", khex(&seen.rec.hash)));
    }
    if fv.header() != &rec.metadata {
        notes.push(format!("file view header() differs from its bytes for {}", khex(&seen.rec.hash)));
    }
    for j in 0..fv.num_entries() {
        if fv.entry(j) != rec.segments[j] {
            notes.push(format!("file view entry({j}) differs for {}", khex(&seen.rec.hash)));
        }
        if fv.contains_verification() && fv.verification(j) != rec.verification[j] {
            notes.push(format!("file view verification({j}) differs for {}", khex(&seen.rec.hash)));
        }
    }
    if fv.contains_metadata_ext() != rec.metadata_ext.is_some() {
        notes.push(format!("file view contains_metadata_ext differs for {}", khex(&seen.rec.hash)));
    }
    Some(seen)
}

fn cas_view_to_seen(cv: &mdb_shard::cas_structs::MDBCASInfoView, notes: &mut Vec<String>) -> Option<SeenXorb> {
    let mut b = Vec::new();
    if let Err(e) = cv.serialize(&mut b) {
        notes.push(format!("xorb view serialize: {e:?}"));
        return None;
    }
    if b.len() != cv.byte_size() {
        notes.push(format!("xorb view byte_size {} but serialized {}", cv.byte_size(), b.len()));
    }
    let rec = match MDBCASInfo::deserialize(&mut &b[..]) {
        Ok(Some(r)) => r,
        o => {
            notes.push(format!("xorb view does not re-parse: {o:?}"));
            return None;
        },
    };
    if cv.header() != &rec.metadata || cv.cas_hash() != rec.metadata.cas_hash || cv.num_entries() != rec.chunks.len() {
        notes.push(format!("xorb view accessors disagree with its bytes for {}", khex(&kk(&rec.metadata.cas_hash))));
    }
    for j in 0..cv.num_entries() {
        if cv.chunk(j) != rec.chunks[j] {
            notes.push(format!("xorb view chunk({j}) differs for {}", khex(&kk(&rec.metadata.cas_hash))));
        }
    }
    Some(from_real_xorb(&rec))
}

fn stream_sync(bytes: &[u8], step: usize) -> Result<Views, String> {
    let mut files = vec![];
    let mut xorbs = vec![];
    let notes = std::cell::RefCell::new(vec![]);
    let mut r = Dribble { data: bytes, pos: 0, step };
    process_shard_stream(
        &mut r,
        Some(|fv: mdb_shard::file_structs::MDBFileInfoView| {
            if let Some(s) = file_view_to_seen(&fv, &mut notes.borrow_mut()) {
                files.push(s);
            }
            Ok(())
        }),
        Some(|cv: mdb_shard::cas_structs::MDBCASInfoView| {
            if let Some(s) = cas_view_to_seen(&cv, &mut notes.borrow_mut()) {
                xorbs.push(s);
            }
            Ok(())
        }),
    )
    .map_err(|e| format!("process_shard_stream: {e:?}"))?;
    Ok((files, xorbs, notes.into_inner()))
}

fn stream_async(bytes: &[u8]) -> Result<Views, String> {
    let mut files = vec![];
    let mut xorbs = vec![];
    let notes = std::cell::RefCell::new(vec![]);
    let mut r: &[u8] = bytes;
    futures::executor::block_on(process_shard_stream_async(
        &mut r,
        Some(|fv: mdb_shard::file_structs::MDBFileInfoView| {
            if let Some(s) = file_view_to_seen(&fv, &mut notes.borrow_mut()) {
                files.push(s);
            }
            Ok(())
        }),
        Some(|cv: mdb_shard::cas_structs::MDBCASInfoView| {
            if let Some(s) = cas_view_to_seen(&cv, &mut notes.borrow_mut()) {
                xorbs.push(s);
            }
            Ok(())
        }),
    ))
    .map_err(|e| format!("process_shard_stream_async: {e:?}"))?;
    Ok((files, xorbs, notes.into_inner()))
}

fn compare_views(v: &mut Vec<Fail>, what: &str, views: Result<Views, String>, want: &RShard, with_files: bool, with_xorbs: bool) {
    match views {
        Err(e) => fail(v, "reader-error", format!("{what}: {e}")),
        Ok((mut f, mut x, notes)) => {
            for n in notes {
                fail(v, "readers-disagree", format!("{what}: {n}"));
            }
            f.sort_by(|a, b| a.rec.cmp(&b.rec));
            x.sort_by(|a, b| a.rec.cmp(&b.rec));
            let wf: Vec<&RFile> = if with_files { want.files.values().collect() } else { vec![] };
            let wx: Vec<&RXorb> = if with_xorbs { want.xorbs.values().collect() } else { vec![] };
            compare_file_lists(v, what, &f, &wf);
            compare_xorb_lists(v, what, &x, &wx);
        },
    }
}

fn minimal_views(m: &MDBMinimalShard) -> Views {
    let mut notes = vec![];
    let mut files = vec![];
    let mut xorbs = vec![];
    for i in 0..m.num_files() {
        if let Some(s) = file_view_to_seen(&m.file(i), &mut notes) {
            files.push(s);
        }
    }
    for i in 0..m.num_cas() {
        if let Some(s) = cas_view_to_seen(&m.cas(i), &mut notes) {
            xorbs.push(s);
        }
    }
    (files, xorbs, notes)
}

/// Streaming reader (sync with short reads, async) and minimal reader (sync, async, every
/// include combination, re-serialized and read back) against `want`.
pub fn check_streaming_and_minimal(want: &RShard, bytes: &[u8], st: &mut Stats) -> Vec<Fail> {
    let mut v = vec![];
    for step in [usize::MAX, 7] {
        compare_views(&mut v, &format!("streaming reader (reads of <= {step} bytes)"), stream_sync(bytes, step), want, true, true);
    }
    compare_views(&mut v, "async streaming reader", stream_async(bytes), want, true, true);
    st.scans += 3;
    for (inc_f, inc_x) in [(true, true), (true, false), (false, true), (false, false)] {
        let what = format!("minimal reader (files={inc_f}, xorbs={inc_x})");
        let ms = MDBMinimalShard::from_reader(&mut Dribble { data: bytes, pos: 0, step: 13 }, inc_f, inc_x);
        let mut r: &[u8] = bytes;
        let ma = futures::executor::block_on(MDBMinimalShard::from_reader_async(&mut r, inc_f, inc_x));
        let (ms, ma) = match (ms, ma) {
            (Ok(a), Ok(b)) => (a, b),
            (a, b) => {
                fail(&mut v, "reader-error", format!("{what}: sync {:?} async {:?}", a.err(), b.err()));
                continue;
            },
        };
        if ms != ma {
            fail(&mut v, "readers-disagree", format!("{what}: sync and async minimal shards differ"));
        }
        st.scans += 2;
        compare_views(&mut v, &what, Ok(minimal_views(&ms)), want, inc_f, inc_x);
        compare_views(&mut v, &format!("async {what}"), Ok(minimal_views(&ma)), want, inc_f, inc_x);
        // re-serialize and read back through the seekable reader
        let mut b2 = Vec::new();
        let mut b3 = Vec::new();
        if let Err(e) = ms.serialize(&mut b2) {
            fail(&mut v, "reader-error", format!("{what}: serialize: {e:?}"));
            continue;
        }
        if let Err(e) = ma.serialize(&mut b3) {
            fail(&mut v, "reader-error", format!("async {what}: serialize: {e:?}"));
            continue;
        }
        if b2 != b3 {
            fail(&mut v, "readers-disagree", format!("{what}: re-serialized sync and async minimal shards differ"));
        }
        let sub = RShard {
            files: if inc_f { want.files.clone() } else { Default::default() },
            xorbs: if inc_x { want.xorbs.clone() } else { Default::default() },
        };
        match scan_to_model(&b2) {
            Err(e) => fail(&mut v, "reader-error", format!("re-serialized {what}: {e}")),
            Ok((got, info, dup)) => {
                if dup || got != sub {
                    fail(&mut v, "readers-disagree", format!("re-serialized {what}: scan gives {}, expected {}", got.describe(), sub.describe()));
                }
                let t = [
                    ("num_bytes", info.num_bytes(), b2.len() as u64),
                    ("materialized_bytes", info.materialized_bytes(), sub.materialized()),
                    ("stored_bytes", info.stored_bytes(), sub.stored()),
                    ("stored_bytes_on_disk", info.stored_bytes_on_disk(), sub.stored_on_disk()),
                ];
                for (name, g, e) in t {
                    if g != e {
                        fail(&mut v, "totals-wrong", format!("re-serialized {what}: {name} is {g}, the records give {e}"));
                    }
                }
            },
        }
    }
    v
}

/// In-memory accounting against the serialized shard (shards built by add_* with distinct keys).
pub fn check_accounting(want: &RShard, mem: &MDBInMemoryShard, bytes: &[u8], info: &MDBShardInfo) -> Vec<Fail> {
    let mut v = vec![];
    let t = [
        ("shard_file_size() vs serialized length", mem.shard_file_size(), bytes.len() as u64),
        ("documented layout size vs serialized length", want.expected_size(), bytes.len() as u64),
        ("num_bytes() of the returned info vs serialized length", info.num_bytes(), bytes.len() as u64),
        ("in-memory materialized_bytes vs records", mem.materialized_bytes(), want.materialized()),
        ("in-memory stored_bytes vs records", mem.stored_bytes(), want.stored()),
        ("in-memory stored_bytes_on_disk vs records", mem.stored_bytes_on_disk(), want.stored_on_disk()),
        ("footer materialized_bytes vs in-memory", info.materialized_bytes(), mem.materialized_bytes()),
        ("footer stored_bytes vs in-memory", info.stored_bytes(), mem.stored_bytes()),
        ("footer stored_bytes_on_disk vs in-memory", info.stored_bytes_on_disk(), mem.stored_bytes_on_disk()),
        ("in-memory num_file_entries vs records", mem.num_file_entries() as u64, want.files.len() as u64),
        ("in-memory num_cas_entries vs records", mem.num_cas_entries() as u64, want.xorbs.len() as u64),
    ];
    for (name, a, b) in t {
        if a != b {
            fail(&mut v, "size-accounting", format!("{name}: {a} != {b}"));
        }
    }
    // the in-memory shard itself answers lookups
    for (k, f) in &want.files {
        match mem.get_file_reconstruction_info(&mh(k)) {
            Some(r) if file_matches(&from_real_file(&r), f) => {},
            o => fail(&mut v, "record-differs", format!("in-memory shard returns {o:?} for stored file {}", khex(k))),
        }
    }
    v
}

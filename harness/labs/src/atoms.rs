//! Atoms: byte blocks that the chunker cuts as exactly one chunk from a fresh boundary, so a
//! file is a *word* over an atom alphabet (plus an optional sub-chunk tail) and its chunk list
//! is that word.  Harvested from a fixed LCG stream with the reference chunker; the labs
//! cross-check every built file against the real chunker.

use vcore::util::Lcg;

use crate::refmodel;

#[derive(Clone, Debug)]
pub struct Atoms {
    pub target: usize,
    pub atoms: Vec<Vec<u8>>,
    /// a single byte that does not end a chunk on its own
    pub tail_one: Vec<u8>,
    /// a proper prefix (>= 2 bytes) of a further atom: no boundary inside or at its end
    pub tail_sub: Vec<u8>,
}

impl Atoms {
    /// First `k` distinct match-cut chunks (2 <= len < max) of the LCG stream, preferring none:
    /// order of appearance, so sizes are whatever the stream gives.
    pub fn harvest(target: usize, k: usize, seed: u64) -> Atoms {
        let p = refmodel::chunk_params(target);
        let mut lcg = Lcg::new(seed);
        let stream = lcg.bytes(target * 2 * (k + 8) * 4);
        let ends = refmodel::chunk_ends(&stream, target);
        let mut atoms: Vec<Vec<u8>> = Vec::new();
        let mut extra: Option<Vec<u8>> = None;
        let mut s = 0;
        for (i, e) in ends.iter().enumerate() {
            let c = &stream[s..*e];
            s = *e;
            if i + 1 == ends.len() {
                break; // last chunk of the stream is not match-cut
            }
            if c.len() < 4 || c.len() >= p.max {
                continue;
            }
            if atoms.iter().any(|a| a == c) {
                continue;
            }
            if atoms.len() < k {
                atoms.push(c.to_vec());
            } else if extra.is_none() {
                extra = Some(c.to_vec());
                break;
            }
        }
        let extra = extra.expect("LCG stream too short for the requested alphabet");
        assert_eq!(atoms.len(), k);
        let tail_one = vec![extra[0]];
        let tail_sub = extra[..extra.len() / 2].to_vec();
        let a = Atoms {
            target,
            atoms,
            tail_one,
            tail_sub,
        };
        a.self_check();
        a
    }

    fn self_check(&self) {
        for a in &self.atoms {
            assert_eq!(refmodel::chunk_ends(a, self.target), vec![a.len()]);
            // followed by anything, the first cut is still at the atom end
            let mut b = a.clone();
            b.extend_from_slice(&self.atoms[0]);
            assert_eq!(refmodel::chunk_ends(&b, self.target)[0], a.len());
        }
        for t in [&self.tail_one, &self.tail_sub] {
            let mut b = t.clone();
            b.push(0x55);
            // no boundary inside or at the end of the tail
            assert!(refmodel::chunk_ends(&b, self.target)[0] > t.len());
        }
    }

    pub fn build(&self, word: &[u8], tail: u8) -> Vec<u8> {
        let mut v = Vec::new();
        for &w in word {
            v.extend_from_slice(&self.atoms[w as usize]);
        }
        match tail {
            1 => v.extend_from_slice(&self.tail_one),
            2 => v.extend_from_slice(&self.tail_sub),
            _ => {},
        }
        v
    }

    /// Byte offsets of the chunk boundaries of `build(word, tail)`.
    pub fn boundaries(&self, word: &[u8], tail: u8) -> Vec<usize> {
        let mut v = Vec::new();
        let mut p = 0;
        for &w in word {
            p += self.atoms[w as usize].len();
            v.push(p);
        }
        match tail {
            1 => v.push(p + self.tail_one.len()),
            2 => v.push(p + self.tail_sub.len()),
            _ => {},
        }
        v
    }
}

/// All words of length 0..=max_len over `k` letters, shortest first, lexicographic within a length.
pub fn words(k: usize, max_len: usize) -> Vec<Vec<u8>> {
    let mut out = vec![vec![]];
    let mut prev: Vec<Vec<u8>> = vec![vec![]];
    for _ in 0..max_len {
        let mut next = Vec::new();
        for w in &prev {
            for a in 0..k {
                let mut x = w.clone();
                x.push(a as u8);
                next.push(x);
            }
        }
        out.extend(next.iter().cloned());
        prev = next;
    }
    out
}

pub fn word_str(w: &[u8]) -> String {
    w.iter().map(|&a| (b'a' + a) as char).collect()
}

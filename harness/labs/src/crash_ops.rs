//! Crash lab (C19), part 1: the operations whose file-system effects are enumerated, their fixed
//! menus of inputs, and the drivers that execute one operation on a directory with the real code.
//!
//! Included by `labs/src/bin/lab_crash.rs` with `#[path]`.
//!
//! Four *domains* (one directory layout each); an operation belongs to exactly one domain and a
//! history is a sequence of operations of one domain executed on the same directory:
//!   shard   — a shard session directory: flush (ShardFileManager), write_to_directory, consolidate
//!   store   — a LocalClient base directory: put of a xorb
//!   cache   — a DiskCache root (with a capacity): put of a chunk range
//!   session — a whole `cas` directory: one upload session (new .. finalize) through `labs::session::Lab`

#![allow(dead_code)]

use std::path::{Path, PathBuf};

use cas_client::{LocalClient, UploadClient};
use cas_types::{ChunkRange, Key};
use chunk_cache::{CacheConfig, ChunkCache, DiskCache};
use labs::refmodel as rm;
use labs::atoms::Atoms;
use labs::session::{Cfg, Feed, FileSpec, SessionSpec};
use mdb_shard::session_directory::consolidate_shards_in_directory;
use mdb_shard::shard_in_memory::MDBInMemoryShard;
use mdb_shard::ShardFileManager;
use merklehash::MerkleHash;
use vcore::util::Lcg;

use crate::shard_model::*;

pub const FAKE_NOW: i64 = 1_700_000_000;
pub const MTIME_BASE: i64 = 1_600_000_000;

#[derive(Clone, Copy, Debug, PartialEq, Eq, PartialOrd, Ord)]
pub enum Domain {
    Shard,
    Store,
    Cache,
    Session,
}
impl Domain {
    pub fn name(self) -> &'static str {
        match self {
            Domain::Shard => "shard",
            Domain::Store => "store",
            Domain::Cache => "cache",
            Domain::Session => "session",
        }
    }
    pub fn parse(s: &str) -> Option<Domain> {
        Some(match s {
            "shard" => Domain::Shard,
            "store" => Domain::Store,
            "cache" => Domain::Cache,
            "session" => Domain::Session,
            _ => return None,
        })
    }
}

#[derive(Clone, Debug, PartialEq, Eq, PartialOrd, Ord)]
pub enum Op {
    /// ShardFileManager::new_in_session_directory + add_* of menu shard i + flush()
    Flush(u8),
    /// MDBInMemoryShard::write_to_directory of menu shard i
    WriteDir(u8),
    /// consolidate_shards_in_directory with threshold code t (see `cons_threshold`)
    Cons(u8),
    /// LocalClient::new + put of menu xorb i
    Put(u8),
    /// DiskCache::initialize + put of menu range i, eviction draws answered by script code e
    CachePut(u8, u8),
    /// one upload session (menu session i) through FileUploadSession on a LocalClient store
    Sess(u8),
    /// harness-side defective writers (only with --selftest-bad-writer)
    Bad(u8),
}

impl Op {
    pub fn domain(&self) -> Domain {
        match self {
            Op::Flush(_) | Op::WriteDir(_) | Op::Cons(_) => Domain::Shard,
            Op::Put(_) => Domain::Store,
            Op::CachePut(..) => Domain::Cache,
            Op::Sess(_) => Domain::Session,
            Op::Bad(k) => match k {
                0 | 1 | 4 => Domain::Shard,
                2 => Domain::Store,
                _ => Domain::Cache,
            },
        }
    }
    /// operation kind used in signatures (`C19/record-lost:<kind>`)
    pub fn kind(&self) -> &'static str {
        match self {
            Op::Flush(_) => "shard-flush",
            Op::WriteDir(_) => "shard-write-to-directory",
            Op::Cons(_) => "consolidate",
            Op::Put(_) => "xorb-put",
            Op::CachePut(..) => "cache-put",
            Op::Sess(_) => "session-finalize",
            Op::Bad(_) => "bad-writer",
        }
    }
    pub fn label(&self) -> String {
        match self {
            Op::Flush(i) => format!("flush:{i}"),
            Op::WriteDir(i) => format!("wdir:{i}"),
            Op::Cons(t) => format!("cons:{t}"),
            Op::Put(i) => format!("put:{i}"),
            Op::CachePut(i, e) => format!("cput:{i}:{e}"),
            Op::Sess(i) => format!("sess:{i}"),
            Op::Bad(i) => format!("bad:{i}"),
        }
    }
    pub fn parse(s: &str) -> Option<Op> {
        let p: Vec<&str> = s.split(':').collect();
        let n = |i: usize| -> Option<u8> { p.get(i)?.parse().ok() };
        Some(match p[0] {
            "flush" => Op::Flush(n(1)?),
            "wdir" => Op::WriteDir(n(1)?),
            "cons" => Op::Cons(n(1)?),
            "put" => Op::Put(n(1)?),
            "cput" => Op::CachePut(n(1)?, n(2)?),
            "sess" => Op::Sess(n(1)?),
            "bad" => Op::Bad(n(1)?),
            _ => return None,
        })
    }
}

// ------------------------------------------------------------------ shard menu

fn key(base: u64, i: u64) -> K {
    [base + i, 0x0707_0707 + i, 0x0808_0808, 0x0909_0909]
}

fn xorb(id: u64, nchunks: u32, chunk_bytes: u32) -> RXorb {
    let mut chunks = vec![];
    let mut start = 0;
    for c in 0..nchunks {
        chunks.push(RChunk {
            hash: key(0x1000_0000 + id * 0x1_0000, c as u64),
            bytes: chunk_bytes + c,
            start,
        });
        start += chunk_bytes + c;
    }
    RXorb {
        hash: key(0x2000_0000, id),
        flags: 0,
        bytes_in_cas: start,
        bytes_on_disk: start + 8 * nchunks,
        chunks,
    }
}

fn file(id: u64, segs: &[(u64, u32, u32)], verif: bool, sha: bool) -> RFile {
    let segs: Vec<RSeg> = segs
        .iter()
        .map(|&(x, s, e)| RSeg {
            cas: key(0x2000_0000, x),
            flags: 0,
            bytes: (e - s) * 100,
            start: s,
            end: e,
        })
        .collect();
    RFile {
        hash: key(0x3000_0000, id),
        verif: if verif { Some((0..segs.len() as u64).map(|i| key(0x4000_0000 + id * 0x100, i)).collect()) } else { None },
        sha: if sha { Some(key(0x5000_0000, id)) } else { None },
        segs,
    }
}

pub const N_SHARD_MENU: u8 = 4;

/// Menu of in-memory shards.  0 and 1: small, disjoint; 2: a sub-shard of 0 (the same xorb
/// record only), so a merge of 0 and 2 can equal 0; 3: > 16 KiB, so its writers need several
/// write() calls.
pub fn shard_menu(i: u8) -> RShard {
    let mut s = RShard::default();
    match i {
        0 => {
            s.add_xorb(xorb(0, 3, 100));
            s.add_file(file(0, &[(0, 0, 2), (0, 2, 3)], false, false));
        },
        1 => {
            s.add_xorb(xorb(1, 2, 70));
            s.add_file(file(1, &[(1, 0, 2)], true, true));
        },
        2 => {
            s.add_xorb(xorb(0, 3, 100));
        },
        _ => {
            s.add_xorb(xorb(3, 400, 50));
            let segs: Vec<(u64, u32, u32)> = (0..30).map(|j| (3u64, j * 10, j * 10 + 10)).collect();
            s.add_file(file(3, &segs, true, false));
        },
    }
    s
}

pub fn build_mem(s: &RShard) -> MDBInMemoryShard {
    let mut m = MDBInMemoryShard::default();
    for x in s.xorbs.values() {
        m.add_cas_block(to_real_xorb(x)).expect("add_cas_block");
    }
    for f in s.files.values() {
        m.add_file_reconstruction_info(to_real_file(f)).expect("add_file_reconstruction_info");
    }
    m
}

pub const N_CONS: u8 = 3;
/// 0: nothing can be merged; 1: two small shards fit, three do not; 2: everything fits
pub fn cons_threshold(t: u8) -> u64 {
    match t {
        0 => 1,
        1 => 1600,
        _ => 1 << 22,
    }
}

// ------------------------------------------------------------------ xorb menu

pub struct XorbInput {
    pub hash: MerkleHash,
    pub data: Vec<u8>,
    pub chunks: Vec<(MerkleHash, u32)>,
}

pub const N_XORB_MENU: u8 = 3;

/// 0: 3 chunks of ~100 bytes; 1: 2 chunks of ~60 bytes; 2: 4 chunks of 5000 bytes (> the 8 KiB
/// buffer of SafeFileCreator, so the temp file grows in several write() calls)
pub fn xorb_menu(i: u8) -> XorbInput {
    let (n, len) = match i {
        0 => (3usize, 100usize),
        1 => (2, 60),
        _ => (4, 5000),
    };
    let mut lcg = Lcg::new(1000 + i as u64);
    let mut data = vec![];
    let mut chunks = vec![];
    let mut list = vec![];
    for c in 0..n {
        let b = lcg.bytes(len + c);
        let h = rm::chunk_hash(&b);
        data.extend_from_slice(&b);
        chunks.push((rm::to_mh(&h), data.len() as u32));
        list.push((h, b.len() as u64));
    }
    XorbInput {
        hash: rm::to_mh(&rm::xorb_hash(&list)),
        data,
        chunks,
    }
}

// ------------------------------------------------------------------ cache menu

pub struct CacheInput {
    pub key: Key,
    pub range: ChunkRange,
    pub indices: Vec<u32>,
    pub data: Vec<u8>,
}

pub fn cache_key(k: u8) -> Key {
    Key {
        prefix: "default".into(),
        hash: mh(&key(0x6000_0000, k as u64)),
    }
}

/// bytes of chunk `c` of the xorb behind cache key `k` (key 1 has 3000-byte chunks)
pub fn cache_chunk(k: u8, c: u32) -> Vec<u8> {
    let len = if k == 0 { 50 + 10 * c as usize } else { 3000 };
    let mut lcg = Lcg::new(5000 + 100 * k as u64 + c as u64);
    lcg.bytes(len)
}

pub fn cache_range_bytes(k: u8, s: u32, e: u32) -> (Vec<u32>, Vec<u8>) {
    let mut idx = vec![0u32];
    let mut data = vec![];
    for c in s..e {
        data.extend_from_slice(&cache_chunk(k, c));
        idx.push(data.len() as u32);
    }
    (idx, data)
}

pub const N_CACHE_MENU: u8 = 5;
/// (key, start, end): 0,1 adjacent small ranges; 2 subsumes both; 3 overlaps both without
/// subsuming either; 4 a > 8 KiB item of another key
pub fn cache_menu_range(i: u8) -> (u8, u32, u32) {
    match i {
        0 => (0, 0, 2),
        1 => (0, 2, 4),
        2 => (0, 0, 4),
        3 => (0, 1, 3),
        _ => (1, 0, 3),
    }
}
pub fn cache_menu(i: u8) -> CacheInput {
    let (k, s, e) = cache_menu_range(i);
    let (indices, data) = cache_range_bytes(k, s, e);
    CacheInput {
        key: cache_key(k),
        range: ChunkRange { start: s, end: e },
        indices,
        data,
    }
}
/// capacity codes: 0 = 1 MiB (never evicts), 1 = 300 bytes (two small items fit, a third evicts)
pub fn cache_capacity(code: u8) -> u64 {
    if code == 0 {
        1 << 20
    } else {
        300
    }
}
/// eviction script: 0 = always the first item in canonical order, 1 = always the last
pub fn evict_script(e: u8) -> Vec<usize> {
    if e == 0 {
        vec![]
    } else {
        vec![usize::MAX / 2; 16]
    }
}

// ------------------------------------------------------------------ session menu

pub const N_SESS_MENU: u8 = 3;
pub fn session_menu(i: u8) -> SessionSpec {
    let f = |w: &str| FileSpec::new(&w.bytes().map(|b| b - b'a').collect::<Vec<u8>>(), 0, Feed::Whole);
    match i {
        0 => SessionSpec::seq(vec![f("abc")]),
        1 => SessionSpec::seq(vec![f("abd"), f("efg")]),
        _ => SessionSpec::seq(vec![f("hgfedc")]),
    }
}
/// session configurations: 0 = one session shard (default shard size), 1 = shards cut at 600
/// bytes (several session shards: consolidation and parallel shard uploads at finalize)
pub fn session_cfg(code: u8) -> Cfg {
    Cfg {
        name: format!("L{code}"),
        target: 128,
        max_xorb_chunks: Some(3),
        max_xorb_bytes: None,
        nranges: None,
        min_cpr: Some(0.0),
        shard_min: if code == 0 { None } else { Some(600) },
        ingest_block: None,
        max_uploads: None,
    }
}

// ------------------------------------------------------------------ execution context

/// Everything an operation needs besides its directory.
pub struct Ctx {
    /// multi-thread flavour (LocalClient::new needs block_in_place) with ONE worker: the tasks of
    /// a session (xorb uploads, shard uploads) run one after the other in spawn order, so the
    /// sequence of file-system effects of a session is the same in every run
    pub rt: tokio::runtime::Runtime,
    pub pool: std::sync::Arc<xet_threadpool::ThreadPool>,
    pub atoms: Option<Atoms>,
    /// domain parameter: cache capacity code / session cfg code
    pub param: u8,
}

impl Ctx {
    pub fn new(domain: Domain, param: u8, _scratch: &Path) -> Ctx {
        let rt = tokio::runtime::Builder::new_multi_thread()
            .worker_threads(1)
            .enable_all()
            .build()
            .expect("tokio runtime");
        let pool = std::sync::Arc::new(xet_threadpool::ThreadPool::from_external(rt.handle().clone()));
        let atoms = if domain == Domain::Session { Some(Atoms::harvest(session_cfg(param).target, labs::session_oracles::K_ATOMS, 7)) } else { None };
        Ctx { rt, pool, atoms, param }
    }
}

pub struct OpOutcome {
    pub err: Option<String>,
}

/// One upload session through the public API (FileUploadSession on the LocalClient store under
/// `cas`): every file cleaned piece by piece, then finalize.
fn run_session(ctx: &Ctx, cas: &Path, spec: &SessionSpec) -> Option<String> {
    use futures::FutureExt;
    let config = labs::session::make_config(cas, spec.salt);
    // the client is built on this (non-worker) thread: LocalClient::new calls block_in_place, which
    // on a worker thread would hand the worker's queue to a second thread and bring back
    // run-to-run differences in the order of effects
    let store = cas.join("xet").join("xorbs");
    let client: std::sync::Arc<dyn cas_client::Client + Send + Sync> = match ctx.rt.block_on(async { LocalClient::new(&store, None) }) {
        Ok(c) => std::sync::Arc::new(c),
        Err(e) => return Some(format!("new: {e:?}")),
    };
    let pool = ctx.pool.clone();
    let atoms = ctx.atoms.clone().expect("session context");
    let spec = spec.clone();
    let fut = async move {
        let body = async {
            let session = data::FileUploadSession::new_with_client(config, pool, None, client, false).await.map_err(|e| format!("new: {e:?}"))?;
            for (i, f) in spec.files.iter().enumerate() {
                let mut c = session.start_clean(format!("file{i}"));
                for (k, piece) in f.pieces(&atoms).iter().enumerate() {
                    c.add_data(piece).await.map_err(|e| format!("add_data(file{i}, piece {k}): {e:?}"))?;
                }
                c.finish().await.map_err(|e| format!("finish(file{i}): {e:?}"))?;
            }
            session.finalize().await.map_err(|e| format!("finalize: {e:?}"))?;
            Ok::<(), String>(())
        };
        match std::panic::AssertUnwindSafe(body).catch_unwind().await {
            Ok(Ok(())) => None,
            Ok(Err(e)) => Some(e),
            Err(p) => Some(format!("panic: {} @ {}", vcore::util::panic_text(&p), vcore::util::last_panic_loc())),
        }
    };
    match ctx.pool.external_run_async_task(fut) {
        Ok(r) => r,
        Err(e) => Some(format!("panic: runtime: {e:?} @ ")),
    }
}

/// Runs `op` to completion on `dir` with the real code.  Errors are returned as text; panics
/// propagate (the caller catches them).
pub fn run_op(ctx: &Ctx, dir: &Path, op: &Op) -> OpOutcome {
    let mut out = OpOutcome { err: None };
    match op {
        Op::Flush(i) => {
            let s = shard_menu(*i);
            let r: Result<(), String> = ctx.rt.block_on(async {
                let m = ShardFileManager::new_in_session_directory(dir).await.map_err(|e| format!("new_in_session_directory: {e:?}"))?;
                for x in s.xorbs.values() {
                    m.add_cas_block(to_real_xorb(x)).await.map_err(|e| format!("add_cas_block: {e:?}"))?;
                }
                for f in s.files.values() {
                    m.add_file_reconstruction_info(to_real_file(f)).await.map_err(|e| format!("add_file_reconstruction_info: {e:?}"))?;
                }
                m.flush().await.map_err(|e| format!("flush: {e:?}"))?;
                Ok(())
            });
            out.err = r.err();
        },
        Op::WriteDir(i) => {
            let m = build_mem(&shard_menu(*i));
            out.err = m.write_to_directory(dir).err().map(|e| format!("write_to_directory: {e:?}"));
        },
        Op::Cons(t) => {
            out.err = consolidate_shards_in_directory(dir, cons_threshold(*t)).err().map(|e| format!("consolidate_shards_in_directory: {e:?}"));
        },
        Op::Put(i) => {
            let x = xorb_menu(*i);
            let dir = dir.to_path_buf();
            let r: Result<(), String> = ctx.rt.block_on(async move {
                let c = LocalClient::new(&dir, None).map_err(|e| format!("LocalClient::new: {e:?}"))?;
                c.put("default", &x.hash, x.data.clone(), x.chunks.clone()).await.map_err(|e| format!("put: {e:?}"))?;
                Ok(())
            });
            out.err = r.err();
        },
        Op::CachePut(i, e) => {
            let inp = cache_menu(*i);
            let cfg = CacheConfig {
                cache_directory: dir.to_path_buf(),
                cache_size: cache_capacity(ctx.param),
            };
            let (r, _) = vcore::sched::with_script(&evict_script(*e), || -> Result<(), String> {
                let c = DiskCache::initialize(&cfg).map_err(|e| format!("initialize: {e:?}"))?;
                c.put(&inp.key, &inp.range, &inp.indices, &inp.data).map_err(|e| format!("put: {e:?}"))?;
                Ok(())
            });
            out.err = r.err();
        },
        Op::Sess(i) => {
            out.err = run_session(ctx, dir, &session_menu(*i));
        },
        Op::Bad(k) => out.err = bad_writer(dir, *k).err(),
    }
    out
}

/// Harness-side defective writers, to demonstrate that the oracle can fail.
///  0: a shard written under its final name with two write() calls
///  1: temp file renamed to the final shard name before the last write()
///  2: a xorb written under its final name in two write() calls
///  3: a cache item written under its final name in two write() calls
///  4: a "consolidation" that removes its input shard before the replacement is in place
fn bad_writer(dir: &Path, k: u8) -> Result<(), String> {
    use std::io::Write;
    let e = |x: std::io::Error| format!("{x}");
    match k {
        4 => {
            let mut names: Vec<String> = std::fs::read_dir(dir).map_err(e)?.flatten().map(|x| x.file_name().to_string_lossy().to_string()).filter(|n| n.ends_with(".mdb")).collect();
            names.sort();
            let name = names.first().ok_or("no shard to rewrite")?.clone();
            let bytes = std::fs::read(dir.join(&name)).map_err(e)?;
            std::fs::remove_file(dir.join(&name)).map_err(e)?;
            let tmp = dir.join(".bad.mdb_temp");
            std::fs::File::create(&tmp).map_err(e)?.write_all(&bytes).map_err(e)?;
            std::fs::rename(&tmp, dir.join(&name)).map_err(e)?;
        },
        0 | 1 => {
            let mut bytes = vec![];
            mdb_shard::MDBShardInfo::serialize_from(&mut bytes, &build_mem(&shard_menu(1))).map_err(|x| format!("{x:?}"))?;
            let name = shard_file_name_of(&bytes);
            let half = bytes.len() / 2;
            if k == 0 {
                let mut f = std::fs::File::create(dir.join(&name)).map_err(e)?;
                f.write_all(&bytes[..half]).map_err(e)?;
                f.write_all(&bytes[half..]).map_err(e)?;
            } else {
                let tmp = dir.join(".bad.mdb_temp");
                let mut f = std::fs::File::create(&tmp).map_err(e)?;
                f.write_all(&bytes[..half]).map_err(e)?;
                std::fs::rename(&tmp, dir.join(&name)).map_err(e)?;
                f.write_all(&bytes[half..]).map_err(e)?;
            }
        },
        2 => {
            let x = xorb_menu(1);
            let mut buf = std::io::Cursor::new(Vec::new());
            cas_object::CasObject::serialize(&mut buf, &x.hash, &x.data, &x.chunks, Some(cas_object::CompressionScheme::None)).map_err(|x| format!("{x:?}"))?;
            let bytes = buf.into_inner();
            std::fs::create_dir_all(dir.join("xorbs")).map_err(e)?;
            let mut f = std::fs::File::create(dir.join("xorbs").join(format!("default.{:?}", x.hash))).map_err(e)?;
            let half = bytes.len() / 2;
            f.write_all(&bytes[..half]).map_err(e)?;
            f.write_all(&bytes[half..]).map_err(e)?;
        },
        _ => {
            // copy an item written by the real code to learn its name, then rewrite it badly
            let inp = cache_menu(1);
            let tmp = dir.parent().unwrap().join("badcache-probe");
            let _ = std::fs::remove_dir_all(&tmp);
            let c = DiskCache::initialize(&CacheConfig {
                cache_directory: tmp.clone(),
                cache_size: 1 << 20,
            })
            .map_err(|x| format!("{x:?}"))?;
            c.put(&inp.key, &inp.range, &inp.indices, &inp.data).map_err(|x| format!("{x:?}"))?;
            let files: Vec<(String, bool, u64)> = vcore::util::list_tree(&tmp).into_iter().filter(|x| !x.1).collect();
            let (rel, _, _) = files.first().ok_or("no cache item written")?.clone();
            let bytes = std::fs::read(tmp.join(&rel)).map_err(e)?;
            let dst = dir.join(&rel);
            std::fs::create_dir_all(dst.parent().unwrap()).map_err(e)?;
            let mut f = std::fs::File::create(&dst).map_err(e)?;
            let half = bytes.len() / 2;
            f.write_all(&bytes[..half]).map_err(e)?;
            f.write_all(&bytes[half..]).map_err(e)?;
            let _ = std::fs::remove_dir_all(&tmp);
        },
    }
    Ok(())
}

// ------------------------------------------------------------------ deterministic mtimes (shard domain)

pub fn set_mtime(p: &Path, secs: i64) {
    let c = std::ffi::CString::new(p.to_string_lossy().as_bytes()).unwrap();
    let ts = [libc::timespec { tv_sec: secs, tv_nsec: 0 }, libc::timespec { tv_sec: secs, tv_nsec: 0 }];
    unsafe {
        libc::utimensat(libc::AT_FDCWD, c.as_ptr(), ts.as_ptr(), 0);
    }
}

/// After step `step` of a history on a shard directory: every shard file carrying a kernel
/// timestamp (= created or rewritten by that step) gets an explicit mtime (consolidation orders
/// its inputs by mtime; the kernel's timestamps tie at run speed).  Files of the same step are
/// ordered by name.
pub fn stamp_new_shards(dir: &Path, step: usize) {
    use std::os::unix::fs::MetadataExt;
    let mut names: Vec<String> = std::fs::read_dir(dir)
        .map(|rd| rd.flatten().map(|e| e.file_name().to_string_lossy().to_string()).collect())
        .unwrap_or_default();
    names.sort();
    let mut j = 0;
    for n in names {
        if !n.ends_with(".mdb") {
            continue;
        }
        let p = dir.join(&n);
        let mt = std::fs::metadata(&p).map(|m| m.mtime()).unwrap_or(0);
        if mt >= MTIME_BASE + 10_000_000 {
            set_mtime(&p, MTIME_BASE + 100 * step as i64 + j);
            j += 1;
        }
    }
}

/// The directory inside the scratch of a case that an operation of `domain` works on.
pub fn domain_root(base: &Path, domain: Domain) -> PathBuf {
    base.join(match domain {
        Domain::Shard => "sd",
        Domain::Store => "st",
        Domain::Cache => "cc",
        Domain::Session => "cas",
    })
}

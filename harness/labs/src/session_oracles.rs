//! Oracles of the session lab (C01 C02 C03 C11 C14 C15) and the scenario families.
//! Every violation signature is namespaced with its property id: "C14/…".

use std::collections::{BTreeMap, BTreeSet};

use data::PointerFile;
use serde_json::{json, Value};
use sha2::{Digest, Sha256};
use vcore::report::{Partial, Tier};

use crate::atoms::words;
use crate::refmodel::{self as rm, RH};
use crate::session::*;

fn fp(bytes: &[u8]) -> String {
    let h = blake3::hash(bytes);
    format!("{}:{}", &h.to_hex()[..16], bytes.len())
}

pub struct Checker<'a> {
    pub lab: &'a mut Lab,
    pub out: &'a mut Partial,
    /// (salt, content fingerprint) -> (pointer hash, pointer size, where first seen)
    pub seen_ptr: BTreeMap<(u8, String), (String, u64, Value)>,
    pub download_ranges: bool,
    pub downloads: bool,
}

impl<'a> Checker<'a> {
    fn viol(&mut self, sig: &str, what: String, scn: &Scenario, upto: usize) {
        let mut s = scn.clone();
        s.sessions.truncate(upto + 1);
        let replay = json!({"lab": "session", "cfg": self.lab.cfg.to_json(), "scenario": s.to_json()});
        self.out.violation(sig, format!("{what}  [cfg {} scenario {}]", self.lab.cfg.name, s.label()), replay);
    }

    pub fn check_scenario(&mut self, scn: &Scenario) {
        let cas = self.lab.fresh_cas();
        self.out.count("scenarios", 1);
        // xorb hash -> chunk list (ref hash of decoded data, len), accumulated over the store's life
        let mut known_xorbs: BTreeMap<RH, Vec<(RH, u64)>> = BTreeMap::new();
        let mut xorb_data: BTreeMap<RH, Vec<Vec<u8>>> = BTreeMap::new();
        let mut prior_chunks: BTreeSet<RH> = BTreeSet::new();
        let mut store_files: BTreeMap<RH, mdb_shard::file_structs::MDBFileInfo> = BTreeMap::new();
        let mut all_files: Vec<FileObs> = vec![];
        let mut nontrivial: Vec<&'static str> = vec![];
        let target = self.lab.cfg.target;

        for (si, ss) in scn.sessions.iter().enumerate() {
            let obs = self.lab.run_session(&cas, ss);
            self.out.count("sessions", 1);
            if let Some(p) = &obs.panic {
                self.out.count("aborted_panic", 1);
                // attribute the panic to the property whose symptom it is
                let sig = if p.contains("file_cleaner.rs") {
                    Some("C14/panic:size-assert-in-finish")
                } else if p.contains("MAX_XORB") || p.contains("data_aggregator.rs") || p.contains("raw_xorb_data.rs") || (p.contains("file_upload_session.rs") && p.contains("left <= right")) {
                    Some("C15/panic:limit-assert")
                } else {
                    None
                };
                match sig {
                    Some(s) => self.viol(s, format!("session {si} panicked: {p}"), scn, si),
                    None => {
                        self.out.notes.push(format!("unattributed panic in session {si} of {}: {p}", scn.label()));
                        self.viol("C01/panic:session-api", format!("session {si} panicked: {p}"), scn, si)
                    },
                }
                break;
            }
            if let Some(e) = &obs.error {
                self.out.count("aborted_error", 1);
                self.out.notes.push(format!("fault-free session returned an error: {e} in {}", scn.label()));
                self.viol("C01/error:fault-free-session-failed", format!("session {si}: {e}"), scn, si);
                break;
            }
            let m = obs.metrics.unwrap();

            // ---------------- new xorbs: C02 / C15
            let max_chunk = target * 2;
            for x in &obs.new_xorbs {
                let nm = rm::hex(&x.name_hash);
                if let Some(e) = &x.repo_decode_err {
                    self.viol("C02/xorb-undecodable", format!("xorb {nm}: {e}"), scn, si);
                    // a stored xorb that the repository's own reader refuses is not one "a validating server accepts"
                    if x.validator_ok != Some(true) {
                        self.viol("C15/validator-rejects", format!("xorb {nm}: validate_cas_object -> {:?}; reading it back fails with {e}", x.validator_ok), scn, si);
                    }
                    continue;
                }
                match &x.ref_chunks {
                    None => self.viol("C02/xorb-undecodable-ref", format!("xorb {nm}: {:?}", x.ref_decode_err), scn, si),
                    Some(rc) => {
                        if rc != &x.chunks {
                            self.viol("C02/decoder-disagree", format!("xorb {nm}: repo and reference decoders differ"), scn, si);
                        }
                    },
                }
                let list: Vec<(RH, u64)> = x.chunks.iter().map(|c| (rm::chunk_hash(c), c.len() as u64)).collect();
                if rm::xorb_hash(&list) != x.name_hash {
                    self.viol("C02/xorb-name-mismatch", format!("xorb {nm}: name != hash recomputed from its {} chunks", list.len()), scn, si);
                }
                if x.footer_hashes != list.iter().map(|l| l.0).collect::<Vec<_>>() {
                    self.viol("C02/xorb-footer-hashes", format!("xorb {nm}: footer chunk hashes != recomputed"), scn, si);
                }
                if x.validator_ok != Some(true) {
                    self.viol("C15/validator-rejects", format!("xorb {nm}: validate_cas_object -> {:?}", x.validator_ok), scn, si);
                }
                if x.chunks.is_empty() || x.chunks.iter().any(|c| c.is_empty()) {
                    self.viol("C15/empty-xorb-or-chunk", format!("xorb {nm}"), scn, si);
                }
                if x.chunks.len() > self.lab.cfg.eff_max_chunks() {
                    self.viol("C15/too-many-chunks", format!("xorb {nm}: {} chunks > {}", x.chunks.len(), self.lab.cfg.eff_max_chunks()), scn, si);
                }
                let nb: usize = x.chunks.iter().map(|c| c.len()).sum();
                if nb > self.lab.cfg.eff_max_bytes() {
                    self.viol("C15/too-many-bytes", format!("xorb {nm}: {nb} bytes > {}", self.lab.cfg.eff_max_bytes()), scn, si);
                }
                if x.chunks.iter().any(|c| c.len() > max_chunk) {
                    self.viol("C15/chunk-too-large", format!("xorb {nm}: a chunk exceeds {max_chunk}"), scn, si);
                }
                // C11: no xorb of a later session carries a chunk that an earlier session stored
                if list.iter().any(|(h, _)| prior_chunks.contains(h)) && !self.lab.cfg.prevention_on() {
                    self.viol("C11/old-chunk-reuploaded", format!("session {si} stored xorb {nm} containing a chunk already stored by an earlier session"), scn, si);
                }
                known_xorbs.insert(x.name_hash, list);
                xorb_data.insert(x.name_hash, x.chunks.clone());
            }
            if obs.new_xorbs.len() >= 2 {
                nontrivial.push("multi-xorb");
                self.out.count("vac:sessions_with_2+_xorbs", 1);
            }

            // ---------------- C11 (a): every chunk of a new xorb is indexed in the shard cache
            let mut indexed: BTreeSet<RH> = BTreeSet::new();
            for sh in &obs.cache_shards_after {
                for (_, chunks) in &sh.cas {
                    for (h, _) in chunks {
                        indexed.insert(*h);
                    }
                }
            }
            // (a session of another client with its own shard cache leaves nothing in this one by construction)
            for x in obs.new_xorbs.iter().filter(|_| !ss.foreign_no_cache) {
                // (an undecodable xorb was reported above and has no chunk list)
                let Some(list) = known_xorbs.get(&x.name_hash) else { continue };
                let missing = list.iter().filter(|(h, _)| !indexed.contains(h)).count();
                if missing > 0 {
                    self.viol(
                        "C11/xorb-chunks-missing-from-shard-index",
                        format!("xorb {} stored by session {si}: {missing} of {} chunks are in no CAS section of the shard cache", rm::hex(&x.name_hash), list.len()),
                        scn,
                        si,
                    );
                } else {
                    self.out.count("vac:xorbs_fully_indexed", 1);
                }
            }

            // ---------------- shards in the store: C02 / C15
            for sh in &obs.new_store_shards {
                if let Some(e) = &sh.err {
                    self.viol("C02/shard-unreadable", format!("store shard {}: {e}", sh.name), scn, si);
                    continue;
                }
                for (xh, chunks) in &sh.cas {
                    match known_xorbs.get(xh) {
                        None => self.viol("C02/cas-info-for-unknown-xorb", format!("shard {} lists xorb {} that the store never received", sh.name, rm::hex(xh)), scn, si),
                        Some(l) => {
                            if l != chunks {
                                self.viol("C02/cas-info-mismatch", format!("shard {}: chunk list of xorb {} differs from the stored xorb", sh.name, rm::hex(xh)), scn, si);
                            }
                        },
                    }
                }
                for fi in &sh.files {
                    store_files.insert(rm::from_mh(&fi.metadata.file_hash), fi.clone());
                }
            }
            if obs.new_store_shards.len() >= 2 {
                self.out.count("vac:sessions_with_2+_shards", 1);
            }

            // ---------------- per file
            let mut sum = [0usize; 10];
            for f in &obs.files {
                self.out.count("files", 1);
                let len = f.bytes.len() as u64;
                let fm = f.metrics.unwrap();
                let fields = [fm.total_bytes, fm.deduped_bytes, fm.new_bytes, fm.deduped_bytes_by_global_dedup, fm.defrag_prevented_dedup_bytes,
                    fm.total_chunks, fm.deduped_chunks, fm.new_chunks, fm.deduped_chunks_by_global_dedup, fm.defrag_prevented_dedup_chunks];
                for (a, b) in sum.iter_mut().zip(fields.iter()) {
                    *a += *b;
                }
                // C14
                if f.pointer_size != len {
                    self.viol("C14/pointer-size", format!("file {}: pointer size {} for {} bytes fed", f.label, f.pointer_size, len), scn, si);
                }
                if fm.total_bytes as u64 != len {
                    self.viol("C14/total-bytes", format!("file {}: total_bytes {} for {} bytes fed", f.label, fm.total_bytes, len), scn, si);
                }
                if fm.new_bytes + fm.deduped_bytes != fm.total_bytes {
                    self.viol("C14/bytes-conservation", format!("file {}: new {} + deduped {} != total {}", f.label, fm.new_bytes, fm.deduped_bytes, fm.total_bytes), scn, si);
                }
                if fm.new_chunks + fm.deduped_chunks != fm.total_chunks {
                    self.viol("C14/chunks-conservation", format!("file {}: new {} + deduped {} != total {}", f.label, fm.new_chunks, fm.deduped_chunks, fm.total_chunks), scn, si);
                }
                if fm.defrag_prevented_dedup_bytes > fm.new_bytes || fm.defrag_prevented_dedup_chunks > fm.new_chunks {
                    self.viol(
                        "C14/withheld-exceeds-new",
                        format!("file {}: defrag_prevented {}B/{}c > new {}B/{}c", f.label, fm.defrag_prevented_dedup_bytes, fm.defrag_prevented_dedup_chunks, fm.new_bytes, fm.new_chunks),
                        scn,
                        si,
                    );
                }
                if fm.deduped_chunks > 0 {
                    self.out.count("vac:files_with_dedup_hit", 1);
                    nontrivial.push("dedup");
                }
                if fm.defrag_prevented_dedup_chunks > 0 {
                    self.out.count("vac:files_with_prevention_fired", 1);
                    nontrivial.push("prevention");
                }
                // C01 pointer text
                if !f.pointer_text_roundtrip {
                    self.viol("C01/pointer-text", format!("file {}: pointer text does not round-trip", f.label), scn, si);
                }
                // C03
                if f.pointer_size != len {
                    self.viol("C03/pointer-size", format!("file {}: pointer size {} for {} bytes", f.label, f.pointer_size, len), scn, si);
                }
                let key = (f.salt, fp(&f.bytes));
                // the chunk size constants are part of the hash definition: compare only within one target size
                self.out.facts.insert(format!("ptr|{}@t{}|{}|{}|{}", f.salt, target, key.1, f.pointer_hash, f.pointer_size));
                let here = json!({"cfg": self.lab.cfg.to_json(), "scenario": scn.to_json(), "session": si, "file": f.label});
                if !self.seen_ptr.contains_key(&key) || self.seen_ptr.get(&key).map(|x| x.0 != f.pointer_hash).unwrap_or(false) {
                    // context of the first sighting of this (content, pointer) in this worker, for cross-process replays
                    let mut short = scn.clone();
                    short.sessions.truncate(si + 1);
                    self.out.facts.insert(format!("ptrctx|{}@t{}|{}|{}|{}", f.salt, target, key.1, f.pointer_hash, json!({"cfg": self.lab.cfg.to_json(), "scenario": short.to_json()})));
                }
                match self.seen_ptr.get(&key) {
                    None => {
                        self.seen_ptr.insert(key.clone(), (f.pointer_hash.clone(), f.pointer_size, here));
                    },
                    Some((h, s, first)) => {
                        if h != &f.pointer_hash || *s != f.pointer_size {
                            let first = first.clone();
                            let what = format!("file {}: pointer ({},{}) here, ({h},{s}) when first cleaned", f.label, f.pointer_hash, f.pointer_size);
                            let replay = json!({"lab": "session", "cfg": self.lab.cfg.to_json(), "scenario": scn.to_json(), "first_seen": first});
                            self.out.violation("C03/pointer-differs-across-contexts", format!("{what} [cfg {} scenario {}]", self.lab.cfg.name, scn.label()), replay);
                        } else {
                            self.out.count("vac:pointer_compared_across_contexts", 1);
                        }
                    },
                }
                for other_salt in 0u8..4 {
                    if other_salt != f.salt {
                        if let Some((h, _, _)) = self.seen_ptr.get(&(other_salt, key.1.clone())) {
                            if h == &f.pointer_hash {
                                // the empty file has its own signature: it is a recorded known finding (its hash is the
                                // all-zero value under every salt), any other content is not
                                let sig = if f.bytes.is_empty() { "C03/salt-ignored@empty-file" } else { "C03/salt-ignored" };
                                self.viol(sig, format!("file {} ({} bytes): same hash {} under salts {} and {}", f.label, f.bytes.len(), f.pointer_hash, f.salt, other_salt), scn, si);
                            } else {
                                self.out.count("vac:salt_pairs_compared", 1);
                            }
                        }
                    }
                }
                // informational: agreement with the reference (chunker ∘ merkle ∘ salt)
                let rh = rm::file_hash(&rm::chunk_list(&f.bytes, target), &salt_of(f.salt));
                if rm::hex(&rh) == f.pointer_hash {
                    self.out.count("info:pointer_equals_reference", 1);
                } else {
                    self.out.count("info:pointer_differs_from_reference", 1);
                }

                // C02: the file's record
                let Some(fh) = rm::from_hex(&f.pointer_hash) else {
                    self.viol("C02/pointer-hash-unparsable", format!("file {}: {}", f.label, f.pointer_hash), scn, si);
                    continue;
                };
                let Some(fi) = store_files.get(&fh).cloned() else {
                    self.viol("C02/file-record-missing", format!("file {}: no record for {} in any shard the store received", f.label, f.pointer_hash), scn, si);
                    continue;
                };
                let mut list: Vec<(RH, u64)> = vec![];
                let mut bytes: Vec<u8> = vec![];
                let mut ok = true;
                if fi.verification.len() != fi.segments.len() {
                    self.viol("C02/verification-missing", format!("file {}: {} verification entries for {} segments", f.label, fi.verification.len(), fi.segments.len()), scn, si);
                    ok = false;
                }
                for (k, seg) in fi.segments.iter().enumerate() {
                    let xh = rm::from_mh(&seg.cas_hash);
                    if xh == rm::ZERO {
                        self.viol("C15/unresolved-xorb-ref", format!("file {}: segment {k} carries the zero xorb hash", f.label), scn, si);
                        ok = false;
                        break;
                    }
                    let Some(xl) = known_xorbs.get(&xh) else {
                        self.viol("C02/dangling-xorb-ref", format!("file {}: segment {k} references xorb {} which the store does not hold", f.label, rm::hex(&xh)), scn, si);
                        ok = false;
                        break;
                    };
                    let (a, b) = (seg.chunk_index_start as usize, seg.chunk_index_end as usize);
                    if a >= b || b > xl.len() {
                        self.viol("C02/chunk-index-out-of-range", format!("file {}: segment {k} = [{a},{b}) of a {}-chunk xorb", f.label, xl.len()), scn, si);
                        ok = false;
                        break;
                    }
                    let sl = &xl[a..b];
                    let n: u64 = sl.iter().map(|c| c.1).sum();
                    if n != seg.unpacked_segment_bytes as u64 {
                        self.viol("C02/segment-bytes", format!("file {}: segment {k} records {} bytes, chunks sum to {n}", f.label, seg.unpacked_segment_bytes), scn, si);
                    }
                    if let Some(v) = fi.verification.get(k) {
                        let want = rm::range_hash(&sl.iter().map(|c| c.0).collect::<Vec<_>>());
                        if rm::from_mh(&v.range_hash) != want {
                            self.viol("C02/verification-hash", format!("file {}: segment {k} verification hash != keyed hash of its chunk hashes", f.label), scn, si);
                        }
                    }
                    list.extend_from_slice(sl);
                    for c in &xorb_data[&xh][a..b] {
                        bytes.extend_from_slice(c);
                    }
                }
                if ok {
                    if rm::file_hash(&list, &salt_of(f.salt)) != fh {
                        self.viol("C02/file-hash", format!("file {}: file hash != salted merkle root of the referenced chunks", f.label), scn, si);
                    }
                    if bytes != f.bytes {
                        self.viol("C02/record-bytes", format!("file {}: bytes referenced by the record differ from the bytes fed", f.label), scn, si);
                    }
                    if fi.segments.len() >= 2 {
                        self.out.count("vac:files_with_2+_segments", 1);
                    }
                }
                match &fi.metadata_ext {
                    None => self.viol("C02/sha256-missing", format!("file {}: no metadata extension", f.label), scn, si),
                    Some(ext) => {
                        let d = Sha256::digest(&f.bytes);
                        let want = rm::from_hex(&d.iter().map(|b| format!("{b:02x}")).collect::<String>()).unwrap();
                        if rm::from_mh(&ext.sha256) != want {
                            let sig = if f.bytes.is_empty() { "C02/sha256-of-empty-file" } else { "C02/sha256" };
                            self.viol(sig, format!("file {}: recorded SHA-256 {} != {}", f.label, ext.sha256.hex(), rm::hex(&want)), scn, si);
                        }
                    },
                }
            }
            // finalize_with_file_info lists exactly this session's files
            let want: BTreeSet<String> = obs.files.iter().map(|f| f.pointer_hash.clone()).collect();
            let got: BTreeSet<String> = obs.file_infos.iter().map(|fi| fi.metadata.file_hash.hex()).collect();
            if want != got {
                self.viol("C02/finalize-file-info", format!("finalize_with_file_info returned {} records for {} distinct files", got.len(), want.len()), scn, si);
            }
            for fi in &obs.file_infos {
                if fi.segments.iter().any(|s| rm::from_mh(&s.cas_hash) == rm::ZERO) {
                    self.viol("C15/unresolved-xorb-ref", format!("finalize_with_file_info: record {} has a zero xorb hash", fi.metadata.file_hash.hex()), scn, si);
                }
            }

            // ---------------- C14 session level
            let got = [m.total_bytes, m.deduped_bytes, m.new_bytes, m.deduped_bytes_by_global_dedup, m.defrag_prevented_dedup_bytes,
                m.total_chunks, m.deduped_chunks, m.new_chunks, m.deduped_chunks_by_global_dedup, m.defrag_prevented_dedup_chunks];
            let names = ["total_bytes", "deduped_bytes", "new_bytes", "deduped_bytes_by_global_dedup", "defrag_prevented_dedup_bytes",
                "total_chunks", "deduped_chunks", "new_chunks", "deduped_chunks_by_global_dedup", "defrag_prevented_dedup_chunks"];
            for i in 0..10 {
                if got[i] != sum[i] {
                    self.viol("C14/session-sum", format!("session {si}: {} = {} but the files sum to {}", names[i], got[i], sum[i]), scn, si);
                    break;
                }
            }
            let stored: u64 = obs.new_xorbs.iter().map(|x| x.file_len).sum();
            // Lower bound only in this driver: LocalClient::put answers 0 for an xorb that already exists and
            // its size otherwise, and two identical xorbs cut by concurrently cleaned files may both be written
            // (each put reports its bytes), so the sum of put results is timing dependent above the bytes that
            // appeared in the store.  The exact equation is decided by the injected driver (lab_inject).
            if (m.xorb_bytes_uploaded as u64) < stored {
                self.viol("C14/xorb-bytes-uploaded", format!("session {si}: xorb_bytes_uploaded = {} but the store wrote {stored} bytes of new xorbs", m.xorb_bytes_uploaded), scn, si);
            }
            let shard_stored: u64 = obs.new_store_shards.iter().map(|s| s.len).sum();
            if (m.shard_bytes_uploaded as u64) < shard_stored {
                self.viol("C14/shard-bytes-uploaded", format!("session {si}: shard_bytes_uploaded = {} < {shard_stored} bytes of new shards in the store", m.shard_bytes_uploaded), scn, si);
            }
            if m.total_bytes_uploaded != m.shard_bytes_uploaded + m.xorb_bytes_uploaded {
                self.viol("C14/total-bytes-uploaded", format!("session {si}: total {} != shard {} + xorb {}", m.total_bytes_uploaded, m.shard_bytes_uploaded, m.xorb_bytes_uploaded), scn, si);
            }

            // ---------------- C11 (b): repeat sessions
            if si >= 1 {
                let mut all_old = true;
                let mut fresh_bytes_one_file = 0u64;
                // every OCCURRENCE of a chunk no earlier session stored (a repeat of a fresh chunk may legitimately be
                // stored again, e.g. in another file of the session)
                let mut fresh_occurrence_bytes = 0u64;
                for f in &obs.files {
                    let mut seen = BTreeSet::new();
                    for (h, l) in rm::chunk_list(&f.bytes, target) {
                        if !prior_chunks.contains(&h) {
                            all_old = false;
                            fresh_occurrence_bytes += l;
                            if seen.insert(h) {
                                fresh_bytes_one_file += l;
                            }
                        }
                    }
                }
                let info_ok = self.out.get("info:pointer_differs_from_reference") == 0;
                if info_ok && !self.lab.cfg.prevention_on() {
                    if all_old && !obs.files.is_empty() {
                        self.out.count("vac:unchanged_reupload_sessions", 1);
                        if m.new_bytes != 0 || !obs.new_xorbs.is_empty() {
                            self.viol("C11/reupload-transfers-new-bytes", format!("session {si} re-uploads only chunks stored by earlier sessions, yet new_bytes = {} and {} new xorbs", m.new_bytes, obs.new_xorbs.len()), scn, si);
                        }
                    } else if obs.files.len() == 1 {
                        self.out.count("vac:extended_reupload_sessions", 1);
                        // every fresh chunk is stored at least once; a fresh chunk that occurs twice in the file may be
                        // stored twice (when a xorb is cut between the occurrences inside one block the second one is
                        // found neither in the pending data nor, yet, in the shards) - but no chunk an earlier session stored
                        if (m.new_bytes as u64) < fresh_bytes_one_file || (m.new_bytes as u64) > fresh_occurrence_bytes {
                            self.viol(
                                "C11/new-bytes-not-only-fresh",
                                format!("session {si}: new_bytes = {} but the fresh chunks amount to {fresh_bytes_one_file} (each once) .. {fresh_occurrence_bytes} (every occurrence)", m.new_bytes),
                                scn,
                                si,
                            );
                        }
                        if fresh_occurrence_bytes != fresh_bytes_one_file {
                            self.out.count("info:extended_reuploads_with_a_repeated_fresh_chunk", 1);
                        }
                    }
                } else if info_ok && !all_old && !obs.files.is_empty() {
                    // fragmentation prevention on, some chunks fresh: a chunk is stored as new data only if no earlier
                    // session stored it or if its dedup was withheld — whatever route the scan takes through the file
                    self.out.count("vac:mixed_reupload_sessions_prevention_on", 1);
                    if m.new_bytes as u64 > fresh_occurrence_bytes + m.defrag_prevented_dedup_bytes as u64 {
                        self.viol(
                            "C11/known-chunks-uploaded-again",
                            format!(
                                "session {si}: new_bytes {} exceed the {} bytes of chunks no earlier session stored plus the {} bytes withheld by fragmentation prevention",
                                m.new_bytes, fresh_occurrence_bytes, m.defrag_prevented_dedup_bytes
                            ),
                            scn,
                            si,
                        );
                    }
                } else if info_ok && all_old && !obs.files.is_empty() {
                    self.out.count("vac:unchanged_reupload_sessions_prevention_on", 1);
                    if m.new_bytes > m.defrag_prevented_dedup_bytes {
                        self.viol("C11/reupload-new-bytes-unaccounted", format!("session {si}: new_bytes {} > defrag_prevented_dedup_bytes {} for an unchanged re-upload", m.new_bytes, m.defrag_prevented_dedup_bytes), scn, si);
                    }
                    // every chunk was stored before, so a chunk is new only because its dedup was withheld, and a
                    // withheld chunk is by definition stored as new: the two counters must agree exactly
                    if m.new_bytes != m.defrag_prevented_dedup_bytes || m.new_chunks != m.defrag_prevented_dedup_chunks {
                        self.viol(
                            "C14/withheld-differs-from-new-on-reupload",
                            format!("session {si}: an unchanged re-upload reports new {}B/{}c but withheld {}B/{}c", m.new_bytes, m.new_chunks, m.defrag_prevented_dedup_bytes, m.defrag_prevented_dedup_chunks),
                            scn,
                            si,
                        );
                    }
                }
            }
            // what this client's shard cache knows afterwards: the chunks of every xorb the session stored and - the
            // claim of C11 itself - every chunk of the files of a finalized session (each was either stored in a new
            // xorb or found); a session run by another client with a shard cache of its own contributes nothing
            if !ss.foreign_no_cache {
                for x in &obs.new_xorbs {
                    for (h, _) in known_xorbs.get(&x.name_hash).map(|l| l.as_slice()).unwrap_or(&[]) {
                        prior_chunks.insert(*h);
                    }
                }
                for f in &obs.files {
                    for (h, _) in rm::chunk_list(&f.bytes, target) {
                        prior_chunks.insert(h);
                    }
                }
            }

            // ---------------- C01 downloads
            let first_new = all_files.len();
            all_files.extend(obs.files.iter().cloned());
            for (idx, f) in all_files.clone().iter().enumerate() {
                if !self.downloads {
                    break;
                }
                let pf = PointerFile::init_from_info("f", &f.pointer_hash, f.pointer_size);
                self.out.count("downloads", 1);
                match self.lab.download(&cas, &pf, None) {
                    Err(e) => self.viol("C01/download-error", format!("file {} (after session {si}): {e}", f.label), scn, si),
                    Ok((b, n)) => {
                        if b != f.bytes {
                            self.viol("C01/download-mismatch", format!("file {} (after session {si}): {} bytes downloaded, {} fed, first difference at {:?}", f.label, b.len(), f.bytes.len(), b.iter().zip(f.bytes.iter()).position(|(x, y)| x != y)), scn, si);
                        } else if n != f.bytes.len() as u64 {
                            self.viol("C01/reported-length", format!("file {}: download reported {n} bytes for {}", f.label, f.bytes.len()), scn, si);
                        }
                    },
                }
                if self.download_ranges && idx >= first_new && f.bytes.len() >= 2 {
                    let len = f.bytes.len() as u64;
                    let b1 = rm::chunk_ends(&f.bytes, target)[0] as u64;
                    let mut rs = vec![(0, 1), (len - 1, len), (1, len - 1), (0, len)];
                    if b1 < len {
                        rs.push((b1 - 1, b1 + 1));
                        rs.push((b1, len));
                        rs.push((0, b1));
                    }
                    for (s, e) in rs {
                        if s >= e {
                            continue;
                        }
                        self.out.count("range_downloads", 1);
                        match self.lab.download(&cas, &pf, Some((s, e))) {
                            Err(er) => self.viol("C01/range-download-error", format!("file {} range {s}..{e}: {er}", f.label), scn, si),
                            Ok((b, n)) => {
                                if b != f.bytes[s as usize..e as usize] || n != e - s {
                                    self.viol("C01/range-mismatch", format!("file {} range {s}..{e}: got {} bytes (reported {n})", f.label, b.len()), scn, si);
                                }
                            },
                        }
                    }
                }
            }
        }
        nontrivial.sort();
        nontrivial.dedup();
        if !nontrivial.is_empty() {
            self.out.distinct(format!("{}|{}|{}", self.lab.cfg.name, scn.label(), nontrivial.join("+")));
        }
        self.out.sample(json!({"cfg": self.lab.cfg.name, "scenario": scn.label(), "features": nontrivial}));
        let _ = vcore::util::make_writable(&cas);
        let _ = std::fs::remove_dir_all(&cas);
    }
}

// ------------------------------------------------------------------ families

fn interleavings(a: usize, b: usize) -> Vec<Vec<usize>> {
    // all sequences with `a` zeros and `b` ones
    fn rec(a: usize, b: usize, cur: &mut Vec<usize>, out: &mut Vec<Vec<usize>>) {
        if a == 0 && b == 0 {
            out.push(cur.clone());
            return;
        }
        if a > 0 {
            cur.push(0);
            rec(a - 1, b, cur, out);
            cur.pop();
        }
        if b > 0 {
            cur.push(1);
            rec(a, b - 1, cur, out);
            cur.pop();
        }
    }
    let mut out = vec![];
    rec(a, b, &mut vec![], &mut out);
    out
}

/// Number of atoms every configuration's alphabet holds.
pub const K_ATOMS: usize = 8;

pub fn family(name: &str, tier: Tier) -> Vec<Scenario> {
    let mut v = vec![];
    let one = |fam: &str, files: Vec<FileSpec>| Scenario {
        family: fam.to_string(),
        sessions: vec![SessionSpec::seq(files)],
    };
    match name {
        // one file, one session: all words <= L over 3 atoms x tails
        "F1" => {
            let l = tier.pick(5, 7);
            for w in words(3, l) {
                for tail in 0..3u8 {
                    v.push(one("F1", vec![FileSpec::new(&w, tail, Feed::Whole)]));
                }
            }
            if tier == Tier::Thorough {
                for w in words(4, 5) {
                    if w.iter().any(|&a| a == 3) {
                        v.push(one("F1", vec![FileSpec::new(&w, 0, Feed::Whole)]));
                    }
                }
            } else {
                // quick: the six-atom words that start with three different atoms (the shortest files in which a run
                // against the file's own pending data can skip a position: abc + a?c)
                for w in words(3, 6) {
                    if w.len() == 6 && w[0] != w[1] && w[1] != w[2] && w[0] != w[2] {
                        v.push(one("F1", vec![FileSpec::new(&w, 0, Feed::Whole)]));
                    }
                }
            }
        },
        // two files in one session, every interleaving of their op lists (per-atom feed)
        "F2" => {
            let l = tier.pick(2, 3);
            let ws = words(3, l);
            // one file that repeats a run of its own pending chunks (ab..ab) next to a file that contains the run's
            // second chunk and fills a xorb around it (K1: three chunks per xorb), in every interleaving: the session
            // shard can learn `b` between the first file's two `ab`s
            for (w1, w2) in [(vec![0u8, 1, 0, 1], vec![2u8, 3, 1, 4]), (vec![0u8, 1, 2, 0, 1], vec![3u8, 1, 4, 5])] {
                let f1 = FileSpec::new(&w1, 0, Feed::PerAtom);
                let f2 = FileSpec::new(&w2, 0, Feed::PerAtom);
                for ord in interleavings(w1.len() + 1, w2.len() + 1) {
                    v.push(Scenario {
                        family: "F2".into(),
                        sessions: vec![SessionSpec { files: vec![f1.clone(), f2.clone()], order: ord, salt: 0, foreign: false, foreign_no_cache: false }],
                    });
                }
            }
            // the same pair with the first file fed in two halves (ab | ab): its second block repeats a run of two
            for (w1, w2) in [(vec![0u8, 1, 0, 1], vec![2u8, 3, 1, 4])] {
                let f1 = FileSpec::new(&w1, 0, Feed::Cut(usize::MAX - 1));
                let f2 = FileSpec::new(&w2, 0, Feed::PerAtom);
                for ord in interleavings(3, w2.len() + 1) {
                    v.push(Scenario {
                        family: "F2".into(),
                        sessions: vec![SessionSpec { files: vec![f1.clone(), f2.clone()], order: ord, salt: 0, foreign: false, foreign_no_cache: false }],
                    });
                }
            }
            for w1 in &ws {
                for w2 in &ws {
                    let f1 = FileSpec::new(w1, 0, Feed::PerAtom);
                    let f2 = FileSpec::new(w2, 0, Feed::PerAtom);
                    for ord in interleavings(w1.len() + 1, w2.len() + 1) {
                        v.push(Scenario {
                            family: "F2".into(),
                            sessions: vec![SessionSpec {
                                files: vec![f1.clone(), f2.clone()],
                                order: ord,
                                salt: 0,
                                foreign: false,
                                foreign_no_cache: false,
                            }],
                        });
                    }
                }
            }
        },
        // two sessions: first a fixed 6-atom file (one mid-file xorb + aggregated rest under the
        // small configurations), or any short word; then every word over old and fresh atoms
        "F3" => {
            let base = FileSpec::new(&[0, 1, 2, 3, 4, 5], 0, Feed::Whole);
            let alpha: [u8; 5] = [0, 2, 3, 5, 6];
            let l = tier.pick(4, 5);
            for w in words(5, l) {
                if w.is_empty() {
                    continue;
                }
                let w: Vec<u8> = w.iter().map(|&i| alpha[i as usize]).collect();
                v.push(Scenario {
                    family: "F3".into(),
                    sessions: vec![SessionSpec::seq(vec![base.clone()]), SessionSpec::seq(vec![FileSpec::new(&w, 0, Feed::Whole)])],
                });
            }
            let (l1, l2) = tier.pick((2, 3), (3, 4));
            for w1 in words(3, l1) {
                for w2 in words(4, l2) {
                    for t2 in [0u8, 2] {
                        if w2.is_empty() && t2 == 0 {
                            continue;
                        }
                        v.push(Scenario {
                            family: "F3".into(),
                            sessions: vec![SessionSpec::seq(vec![FileSpec::new(&w1, 0, Feed::Whole)]), SessionSpec::seq(vec![FileSpec::new(&w2, t2, Feed::Whole)])],
                        });
                    }
                }
            }
            // unchanged re-upload of multi-file sessions
            for w1 in words(3, 2) {
                for w2 in words(3, 2) {
                    let files = vec![FileSpec::new(&w1, 0, Feed::Whole), FileSpec::new(&w2, 2, Feed::Whole)];
                    v.push(Scenario {
                        family: "F3".into(),
                        sessions: vec![SessionSpec::seq(files.clone()), SessionSpec::seq(files)],
                    });
                }
            }
        },
        // two sessions; the second cleans TWO files: one of fresh atoms and one mixing fresh atoms with
        // atoms the first session stored (dedup hits after new data, while the session aggregator is
        // non-empty), in both file orders
        "F8" => {
            let base = FileSpec::new(&[0, 1, 2, 3, 4, 5], 0, Feed::Whole);
            let fresh: [u8; 2] = [6, 7];
            let mixed: [u8; 4] = [0, 3, 6, 7];
            let (l1, l2) = tier.pick((2, 3), (2, 4));
            for w1 in words(2, l1) {
                if w1.is_empty() {
                    continue;
                }
                let w1: Vec<u8> = w1.iter().map(|&i| fresh[i as usize]).collect();
                for w2 in words(4, l2) {
                    if w2.is_empty() {
                        continue;
                    }
                    let w2: Vec<u8> = w2.iter().map(|&i| mixed[i as usize]).collect();
                    if !w2.iter().any(|a| *a < 6) {
                        continue; // no old atom: nothing to dedup against
                    }
                    for flip in [false, true] {
                        let (fa, fb) = (FileSpec::new(&w1, 0, Feed::Whole), FileSpec::new(&w2, 0, Feed::Whole));
                        let files = if flip { vec![fb, fa] } else { vec![fa, fb] };
                        v.push(Scenario {
                            family: "F8".into(),
                            sessions: vec![SessionSpec::seq(vec![base.clone()]), SessionSpec::seq(files)],
                        });
                    }
                }
            }
        },
        // fragmented dedup: the first session stores one 8-atom file; the second cleans every word of up to L
        // BLOCKS, a block being a run of stored atoms (2, 3, 3 long) or a single stored atom. Refused dedup
        // ranges of length >= 2 whose later chunks are already in the pending xorb (from an earlier refusal)
        // are the case the withheld-bytes accounting has to get right.
        "F9" => {
            let base = FileSpec::new(&[0, 1, 2, 3, 4, 5, 6, 7], 0, Feed::Whole);
            let blocks: [&[u8]; 5] = [&[0, 1], &[2, 3, 4], &[5, 6, 7], &[0], &[1]];
            let l = tier.pick(5, 6);
            for w in words(5, l) {
                if w.len() < 3 {
                    continue;
                }
                let atoms: Vec<u8> = w.iter().flat_map(|&b| blocks[b as usize].iter().copied()).collect();
                v.push(Scenario {
                    family: "F9".into(),
                    sessions: vec![SessionSpec::seq(vec![base.clone()]), SessionSpec::seq(vec![FileSpec::new(&atoms, 0, Feed::Whole)])],
                });
            }
        },
        // a second client sharing the store and the shard cache: the first session (this client) makes the cached
        // shard manager live, the second is run by the other client, the third (this client again) re-uploads or
        // recombines what the other client stored and has to find it in the shared cache
        "F10" => {
            let l = tier.pick(2, 3);
            for w0 in [vec![5u8], vec![]] {
                for w1 in words(3, l) {
                    if w1.is_empty() {
                        continue;
                    }
                    let mut thirds: Vec<Vec<u8>> = vec![w1.clone()];
                    let mut ext = w1.clone();
                    ext.push(6);
                    thirds.push(ext);
                    let mut pre = vec![7u8];
                    pre.extend(w1.iter().copied());
                    thirds.push(pre);
                    for w2 in thirds {
                        let mut other = SessionSpec::seq(vec![FileSpec::new(&w1, 0, Feed::Whole)]);
                        other.foreign = true;
                        v.push(Scenario {
                            family: "F10".into(),
                            sessions: vec![SessionSpec::seq(vec![FileSpec::new(&w0, 2, Feed::Whole)]), other, SessionSpec::seq(vec![FileSpec::new(&w2, 0, Feed::Whole)])],
                        });
                    }
                }
            }
        },
        // many small sessions in one process, then each one's content again: the shard manager's index has a cap
        // (configuration K12: 20 entries) that eight one-atom sessions stay far below, so every repeat must dedup
        "F12" => {
            let mut sessions: Vec<SessionSpec> = (0..8u8).map(|a| SessionSpec::seq(vec![FileSpec::new(&[a], 0, Feed::Whole)])).collect();
            for a in [7u8, 6, 0] {
                sessions.push(SessionSpec::seq(vec![FileSpec::new(&[a], 0, Feed::Whole)]));
            }
            v.push(Scenario { family: "F12".into(), sessions });
        },
        // the store already holds what this client uploads, but this client's shard cache has never heard of it
        // (another client with a shard cache of its own uploaded the same content): the upload must still be
        // recorded in this client's shards, so that its own repeat session transfers nothing
        "F11" => {
            let l = tier.pick(2, 3);
            for w0 in [vec![5u8], vec![]] {
                for w1 in words(3, l) {
                    if w1.is_empty() {
                        continue;
                    }
                    let mut seconds: Vec<Vec<u8>> = vec![w1.clone()];
                    let mut ext = w1.clone();
                    ext.push(6);
                    seconds.push(ext);
                    let mut pre = vec![7u8];
                    pre.extend(w1.iter().copied());
                    seconds.push(pre);
                    for w2 in seconds {
                        let mut other = SessionSpec::seq(vec![FileSpec::new(&w1, 0, Feed::Whole)]);
                        other.foreign = true;
                        other.foreign_no_cache = true;
                        v.push(Scenario {
                            family: "F11".into(),
                            sessions: vec![
                                SessionSpec::seq(vec![FileSpec::new(&w0, 2, Feed::Whole)]),
                                other,
                                SessionSpec::seq(vec![FileSpec::new(&w2, 0, Feed::Whole)]),
                                SessionSpec::seq(vec![FileSpec::new(&w2, 0, Feed::Whole)]),
                            ],
                        });
                    }
                }
            }
        },
        // like F9, with a fresh atom and a long stored run among the blocks: a locally refused range (fresh atom +
        // short stored run, seen twice) can then have a tail that the shard index knows as the start of a longer run
        "F9b" => {
            let base = FileSpec::new(&[0, 1, 2, 3, 4, 5, 6], 0, Feed::Whole);
            let blocks: [&[u8]; 7] = [&[0, 1], &[2, 3, 4], &[5, 6], &[0], &[3], &[7], &[0, 1, 2, 3, 4]];
            let l = 5;
            for w in words(7, l) {
                if w.len() < 3 || !w.iter().any(|b| *b == 5) {
                    continue;
                }
                let atoms: Vec<u8> = w.iter().flat_map(|&b| blocks[b as usize].iter().copied()).collect();
                v.push(Scenario {
                    family: "F9b".into(),
                    sessions: vec![SessionSpec::seq(vec![base.clone()]), SessionSpec::seq(vec![FileSpec::new(&atoms, 0, Feed::Whole)])],
                });
            }
        },
        // deeper words over four blocks only (long stored run, fresh atom, short stored run, another stored run): reaches
        // e.g. L L x ab x L, where the local range [x a b] is refused and the stored run starting at a is accepted
        "F9c" => {
            let base = FileSpec::new(&[0, 1, 2, 3, 4, 5, 6], 0, Feed::Whole);
            let blocks: [&[u8]; 4] = [&[0, 1, 2, 3, 4], &[7], &[0, 1], &[5, 6]];
            let l = tier.pick(6, 7);
            for w in words(4, l) {
                if w.len() < 4 || !w.iter().any(|b| *b == 1) {
                    continue;
                }
                let atoms: Vec<u8> = w.iter().flat_map(|&b| blocks[b as usize].iter().copied()).collect();
                v.push(Scenario {
                    family: "F9c".into(),
                    sessions: vec![SessionSpec::seq(vec![base.clone()]), SessionSpec::seq(vec![FileSpec::new(&atoms, 0, Feed::Whole)])],
                });
            }
        },
        // three sessions, all triples of words <= 2 over 3 atoms
        "F4" => {
            let ws = words(3, 2);
            for a in &ws {
                for b in &ws {
                    for c in &ws {
                        v.push(Scenario {
                            family: "F4".into(),
                            sessions: [a, b, c].iter().map(|w| SessionSpec::seq(vec![FileSpec::new(w, 0, Feed::Whole)])).collect(),
                        });
                    }
                }
            }
        },
        // many small files in one session (aggregator merge / swap / limits exactly and one past)
        "F5" => {
            let nmax = tier.pick(5, 9);
            for n in 2..=nmax {
                // distinct single-atom files, repeated single-atom files, two-atom files, mixed sizes
                let single: Vec<FileSpec> = (0..n).map(|i| FileSpec::new(&[(i % K_ATOMS) as u8], 0, Feed::Whole)).collect();
                v.push(one("F5", single));
                let same: Vec<FileSpec> = (0..n).map(|_| FileSpec::new(&[0], 0, Feed::Whole)).collect();
                v.push(one("F5", same));
                let two: Vec<FileSpec> = (0..n).map(|i| FileSpec::new(&[(i % K_ATOMS) as u8, ((i + 1) % K_ATOMS) as u8], 0, Feed::Whole)).collect();
                v.push(one("F5", two));
                let mixed: Vec<FileSpec> = (0..n).map(|i| FileSpec::new(&(0..(i % 4) as u8).map(|j| (j + i as u8) % K_ATOMS as u8).collect::<Vec<_>>(), (i % 3) as u8, Feed::Whole)).collect();
                v.push(one("F5", mixed));
                // a big file first / last (swap branch)
                let mut bigfirst = vec![FileSpec::new(&[0, 1, 2], 0, Feed::Whole)];
                bigfirst.extend((0..n - 1).map(|i| FileSpec::new(&[(3 + i % 5) as u8], 0, Feed::Whole)));
                v.push(one("F5", bigfirst.clone()));
                bigfirst.reverse();
                v.push(one("F5", bigfirst));
                // tails only (sub-chunk files)
                let tails: Vec<FileSpec> = (0..n).map(|i| FileSpec::new(&[], 1 + (i % 2) as u8, Feed::Whole)).collect();
                v.push(one("F5", tails));
            }
        },
        // feed partitions of every F1 word <= 4
        "F6" => {
            let l = tier.pick(3, 4);
            for w in words(3, l) {
                for tail in [0u8, 2] {
                    let mut feeds = vec![Feed::PerAtom, Feed::Step(1), Feed::Step(7), Feed::Step(64)];
                    if tier == Tier::Thorough {
                        feeds.push(Feed::Step(3));
                        feeds.push(Feed::Step(100));
                        feeds.push(Feed::Step(129));
                    }
                    for f in feeds {
                        v.push(one("F6", vec![FileSpec::new(&w, tail, f)]));
                    }
                }
            }
        },
        // every single cut position of a few words (chunker carry-over at session level)
        "F6c" => {
            // resolved by the worker, which knows the atom sizes: cut = usize::MAX marks "all cuts"
            for w in words(3, tier.pick(2, 3)) {
                v.push(one("F6c", vec![FileSpec::new(&w, 2, Feed::Cut(usize::MAX))]));
            }
            // two blocks of which the second first overflows the xorb that holds the first block's data and then
            // repeats that data (four different atoms: three fill a xorb under K1, the fourth cuts it)
            for w in [vec![0u8, 1, 2, 3, 0], vec![0, 1, 2, 3, 1, 0], vec![0, 0, 1, 2, 3, 0]] {
                v.push(one("F6c", vec![FileSpec::new(&w, 0, Feed::Cut(usize::MAX))]));
            }
        },
        // production constants (64 KiB target, default limits): raw LCG contents with sizes at and past the
        // chunk / ingestion-block / xorb limits, repeated blocks, re-upload in a second session
        "F7" => {
            let mib = 1usize << 20;
            let mut contents: Vec<(u64, usize, usize)> = vec![(1, 200_000, 0), (2, mib, 3 * 65536), (3, 131_072, 1), (4, 65_536 * 2 + 1, 0)];
            if tier == Tier::Thorough {
                contents.extend(vec![(5, 9 * mib + 17, 0), (6, 12 * mib, mib), (7, 70 * mib, 0), (8, 66 * mib, 2 * mib), (9, 8 * mib, 0), (10, 8 * mib + 1, 0)]);
            }
            for (seed, len, period) in contents {
                let feeds = if len > 4 * mib { vec![Feed::Whole, Feed::Step(mib)] } else { vec![Feed::Whole, Feed::Step(60_000)] };
                for feed in feeds {
                    let f = FileSpec::raw(seed, len, period, feed);
                    // alone, and re-uploaded unchanged in a second session
                    v.push(Scenario {
                        family: "F7".into(),
                        sessions: vec![SessionSpec::seq(vec![f.clone()]), SessionSpec::seq(vec![f])],
                    });
                }
            }
            // several files in one session, then one of them extended
            let a = FileSpec::raw(21, 300_000, 0, Feed::Whole);
            let b = FileSpec::raw(22, 100, 0, Feed::Whole);
            let c = FileSpec::raw(21, 500_000, 0, Feed::Step(70_000));
            v.push(Scenario {
                family: "F7".into(),
                sessions: vec![SessionSpec::seq(vec![a, b.clone()]), SessionSpec::seq(vec![c, b])],
            });
        },
        // salts
        "FS" => {
            for w in words(3, tier.pick(2, 3)) {
                for tail in [0u8, 2] {
                    for salt in 1u8..=2 {
                        v.push(Scenario {
                            family: "FS".into(),
                            sessions: vec![SessionSpec {
                                files: vec![FileSpec::new(&w, tail, Feed::Whole)],
                                order: vec![],
                                salt,
                                foreign: false,
                                foreign_no_cache: false,
                            }],
                        });
                    }
                    v.push(one("FS", vec![FileSpec::new(&w, tail, Feed::Whole)]));
                }
            }
        },
        _ => panic!("unknown family {name}"),
    }
    v
}

//! Reference model of a metadata shard ("boring": two BTreeMaps of plain records) used by
//! lab_shard_store (C09, C10).  Written from the documented shard layout and the documented
//! semantics of union / difference / merge; it never calls the readers/writers under test.
//! The only contact with `mdb_shard` is the pair of adapters at the bottom that copy fields
//! between the plain records and the public structs.
//!
//! Included by the lab binary with `#[path]`, so `labs/src/lib.rs` is untouched.

#![allow(dead_code)]

use std::collections::BTreeMap;

use serde_json::{json, Value};

/// A 256-bit key as four words; word 0 is the 64-bit truncated key of the lookup tables, and the
/// order of keys is the lexicographic order of the words (so it refines the truncated order).
pub type K = [u64; 4];

pub const FLAG_VERIFICATION: u32 = 1 << 31;
pub const FLAG_METADATA_EXT: u32 = 1 << 30;

/// Fixed 48-byte entry of both info sections.
pub const ENTRY: u64 = 48;
pub const HEADER_BYTES: u64 = 32 + 8 + 8;
pub const FOOTER_BYTES: u64 = 9 * 8 + 32 + 2 * 8 + 6 * 8 + 4 * 8;
pub const FILE_LOOKUP_ENTRY: u64 = 8 + 4;
pub const CAS_LOOKUP_ENTRY: u64 = 8 + 4;
pub const CHUNK_LOOKUP_ENTRY: u64 = 8 + 4 + 4;

pub fn trunc(k: &K) -> u64 {
    k[0]
}

pub fn khex(k: &K) -> String {
    format!("{:x}.{:x}.{:x}.{:x}", k[0], k[1], k[2], k[3])
}

#[derive(Clone, Debug, PartialEq, Eq, PartialOrd, Ord)]
pub struct RSeg {
    pub cas: K,
    pub flags: u32,
    pub bytes: u32,
    pub start: u32,
    pub end: u32,
}

#[derive(Clone, Debug, PartialEq, Eq, PartialOrd, Ord)]
pub struct RFile {
    pub hash: K,
    pub segs: Vec<RSeg>,
    /// one range hash per segment when the verification flag is set
    pub verif: Option<Vec<K>>,
    /// sha256 metadata extension when that flag is set
    pub sha: Option<K>,
}

impl RFile {
    pub fn flags(&self) -> u32 {
        (if self.verif.is_some() { FLAG_VERIFICATION } else { 0 }) | (if self.sha.is_some() { FLAG_METADATA_EXT } else { 0 })
    }
    pub fn entries(&self) -> u64 {
        let n = self.segs.len() as u64;
        1 + n + if self.verif.is_some() { n } else { 0 } + if self.sha.is_some() { 1 } else { 0 }
    }
    pub fn materialized(&self) -> u64 {
        self.segs.iter().map(|s| s.bytes as u64).sum()
    }
    /// `self` carries everything `o` carries (same file): flag superset.
    pub fn richer_or_equal(&self, o: &RFile) -> bool {
        self.hash == o.hash && self.segs == o.segs && (o.flags() & !self.flags()) == 0
    }
    /// The union rule for two records of the same file: the result carries the verification and
    /// the metadata extension if either side does; where both sides carry a piece either copy is
    /// acceptable, so this returns the set of acceptable results (one or more).
    pub fn merged_candidates(a: &RFile, b: &RFile) -> Vec<RFile> {
        let mut verifs: Vec<Option<Vec<K>>> = vec![];
        match (&a.verif, &b.verif) {
            (None, None) => verifs.push(None),
            (Some(x), None) | (None, Some(x)) => verifs.push(Some(x.clone())),
            (Some(x), Some(y)) => {
                verifs.push(Some(x.clone()));
                if x != y {
                    verifs.push(Some(y.clone()));
                }
            },
        }
        let mut shas: Vec<Option<K>> = vec![];
        match (&a.sha, &b.sha) {
            (None, None) => shas.push(None),
            (Some(x), None) | (None, Some(x)) => shas.push(Some(*x)),
            (Some(x), Some(y)) => {
                shas.push(Some(*x));
                if x != y {
                    shas.push(Some(*y));
                }
            },
        }
        // The segment list and the per-segment verification entries describe ONE segmentation of the file and
        // have to come from the same record; when the two records are segmented differently (the same file
        // deduplicated against different data) the result is one side's segmentation with that side's
        // verification.  If either side carries verification the result must carry it as well.
        let need_v = a.verif.is_some() || b.verif.is_some();
        let _ = verifs;
        let mut out: Vec<RFile> = vec![];
        for (x, y) in [(a, b), (b, a)] {
            let mut vopts: Vec<Option<Vec<K>>> = vec![];
            if !need_v {
                vopts.push(None);
            } else {
                if let Some(v) = &x.verif {
                    vopts.push(Some(v.clone()));
                }
                if let (Some(v), true) = (&y.verif, y.segs == x.segs) {
                    if !vopts.contains(&Some(v.clone())) {
                        vopts.push(Some(v.clone()));
                    }
                }
            }
            for v in &vopts {
                for m in &shas {
                    let f = RFile {
                        hash: a.hash,
                        segs: x.segs.clone(),
                        verif: v.clone(),
                        sha: *m,
                    };
                    if !out.contains(&f) {
                        out.push(f);
                    }
                }
            }
        }
        out
    }
    pub fn to_json(&self) -> Value {
        json!({
            "hash": self.hash,
            "segs": self.segs.iter().map(|s| json!([s.cas, s.flags, s.bytes, s.start, s.end])).collect::<Vec<_>>(),
            "verif": self.verif,
            "sha": self.sha,
        })
    }
    pub fn from_json(v: &Value) -> RFile {
        RFile {
            hash: k_from_json(&v["hash"]),
            segs: v["segs"]
                .as_array()
                .cloned()
                .unwrap_or_default()
                .iter()
                .map(|s| RSeg {
                    cas: k_from_json(&s[0]),
                    flags: s[1].as_u64().unwrap_or(0) as u32,
                    bytes: s[2].as_u64().unwrap_or(0) as u32,
                    start: s[3].as_u64().unwrap_or(0) as u32,
                    end: s[4].as_u64().unwrap_or(0) as u32,
                })
                .collect(),
            verif: v["verif"].as_array().map(|a| a.iter().map(k_from_json).collect()),
            sha: if v["sha"].is_array() { Some(k_from_json(&v["sha"])) } else { None },
        }
    }
}

pub fn k_from_json(v: &Value) -> K {
    let mut k = [0u64; 4];
    for (i, w) in k.iter_mut().enumerate() {
        *w = v[i].as_u64().unwrap_or(0);
    }
    k
}

#[derive(Clone, Debug, PartialEq, Eq, PartialOrd, Ord)]
pub struct RChunk {
    pub hash: K,
    pub bytes: u32,
    pub start: u32,
}

#[derive(Clone, Debug, PartialEq, Eq, PartialOrd, Ord)]
pub struct RXorb {
    pub hash: K,
    pub flags: u32,
    pub bytes_in_cas: u32,
    pub bytes_on_disk: u32,
    pub chunks: Vec<RChunk>,
}

impl RXorb {
    pub fn to_json(&self) -> Value {
        json!({
            "hash": self.hash, "flags": self.flags, "in_cas": self.bytes_in_cas, "on_disk": self.bytes_on_disk,
            "chunks": self.chunks.iter().map(|c| json!([c.hash, c.bytes, c.start])).collect::<Vec<_>>(),
        })
    }
    pub fn from_json(v: &Value) -> RXorb {
        RXorb {
            hash: k_from_json(&v["hash"]),
            flags: v["flags"].as_u64().unwrap_or(0) as u32,
            bytes_in_cas: v["in_cas"].as_u64().unwrap_or(0) as u32,
            bytes_on_disk: v["on_disk"].as_u64().unwrap_or(0) as u32,
            chunks: v["chunks"]
                .as_array()
                .cloned()
                .unwrap_or_default()
                .iter()
                .map(|c| RChunk {
                    hash: k_from_json(&c[0]),
                    bytes: c[1].as_u64().unwrap_or(0) as u32,
                    start: c[2].as_u64().unwrap_or(0) as u32,
                })
                .collect(),
        }
    }
}

#[derive(Clone, Debug, Default, PartialEq, Eq, PartialOrd, Ord)]
pub struct RShard {
    pub files: BTreeMap<K, RFile>,
    pub xorbs: BTreeMap<K, RXorb>,
}

impl RShard {
    pub fn add_file(&mut self, f: RFile) {
        self.files.insert(f.hash, f);
    }
    pub fn add_xorb(&mut self, x: RXorb) {
        self.xorbs.insert(x.hash, x);
    }
    pub fn is_empty(&self) -> bool {
        self.files.is_empty() && self.xorbs.is_empty()
    }
    pub fn num_chunks(&self) -> u64 {
        self.xorbs.values().map(|x| x.chunks.len() as u64).sum()
    }
    /// Size of the serialized shard by the documented layout: header, file info (+ bookend),
    /// xorb info (+ bookend), three lookup tables, footer.
    pub fn expected_size(&self) -> u64 {
        let mut n = HEADER_BYTES + FOOTER_BYTES + 2 * ENTRY;
        for f in self.files.values() {
            n += f.entries() * ENTRY + FILE_LOOKUP_ENTRY;
        }
        for x in self.xorbs.values() {
            let c = x.chunks.len() as u64;
            n += (1 + c) * ENTRY + CAS_LOOKUP_ENTRY + c * CHUNK_LOOKUP_ENTRY;
        }
        n
    }
    pub fn materialized(&self) -> u64 {
        self.files.values().map(|f| f.materialized()).sum()
    }
    pub fn stored(&self) -> u64 {
        self.xorbs.values().map(|x| x.bytes_in_cas as u64).sum()
    }
    pub fn stored_on_disk(&self) -> u64 {
        self.xorbs.values().map(|x| x.bytes_on_disk as u64).sum()
    }
    /// Index (in 48-byte entries from the start of the file info section) of every file record.
    pub fn file_index(&self) -> BTreeMap<K, u32> {
        let mut m = BTreeMap::new();
        let mut i = 0u32;
        for (k, f) in &self.files {
            m.insert(*k, i);
            i += f.entries() as u32;
        }
        m
    }
    /// Index (in 48-byte entries from the start of the xorb info section) of every xorb record.
    pub fn xorb_index(&self) -> BTreeMap<K, u32> {
        let mut m = BTreeMap::new();
        let mut i = 0u32;
        for (k, x) in &self.xorbs {
            m.insert(*k, i);
            i += 1 + x.chunks.len() as u32;
        }
        m
    }
    /// Expected chunk lookup table as a sorted multiset of (truncated chunk hash, (xorb index, chunk index)).
    pub fn chunk_table(&self) -> Vec<(u64, (u32, u32))> {
        let idx = self.xorb_index();
        let mut v = vec![];
        for (k, x) in &self.xorbs {
            for (j, c) in x.chunks.iter().enumerate() {
                v.push((trunc(&c.hash), (idx[k], j as u32)));
            }
        }
        v.sort();
        v
    }
    /// How many records of a table share the truncated key of `k`.
    pub fn file_prefix_run(&self, k: &K) -> usize {
        self.files.keys().filter(|h| h[0] == k[0]).count()
    }
    pub fn xorb_prefix_run(&self, k: &K) -> usize {
        self.xorbs.keys().filter(|h| h[0] == k[0]).count()
    }

    /// Union: every xorb of either side; every file of either side, and for a file on both sides
    /// the acceptable merged records (see `RFile::merged_candidates`).  Returns the map of
    /// acceptable file records per key.
    pub fn union_spec(a: &RShard, b: &RShard) -> (BTreeMap<K, Vec<RFile>>, BTreeMap<K, Vec<RXorb>>) {
        let mut files: BTreeMap<K, Vec<RFile>> = BTreeMap::new();
        for (k, f) in &a.files {
            match b.files.get(k) {
                None => {
                    files.insert(*k, vec![f.clone()]);
                },
                Some(g) => {
                    files.insert(*k, RFile::merged_candidates(f, g));
                },
            }
        }
        for (k, g) in &b.files {
            files.entry(*k).or_insert_with(|| vec![g.clone()]);
        }
        let mut xorbs: BTreeMap<K, Vec<RXorb>> = BTreeMap::new();
        for (k, x) in &a.xorbs {
            let mut c = vec![x.clone()];
            if let Some(y) = b.xorbs.get(k) {
                if y != x {
                    c.push(y.clone());
                }
            }
            xorbs.insert(*k, c);
        }
        for (k, y) in &b.xorbs {
            xorbs.entry(*k).or_insert_with(|| vec![y.clone()]);
        }
        (files, xorbs)
    }

    /// The union when both sides agree on shared pieces (the documented assumption): a shard.
    pub fn union(a: &RShard, b: &RShard) -> RShard {
        let (f, x) = RShard::union_spec(a, b);
        RShard {
            files: f.into_iter().map(|(k, mut v)| (k, v.remove(0))).collect(),
            xorbs: x.into_iter().map(|(k, mut v)| (k, v.remove(0))).collect(),
        }
    }

    /// difference(first, second): the records of `second` whose key is not in `first`.
    pub fn difference(first: &RShard, second: &RShard) -> RShard {
        RShard {
            files: second.files.iter().filter(|(k, _)| !first.files.contains_key(*k)).map(|(k, v)| (*k, v.clone())).collect(),
            xorbs: second.xorbs.iter().filter(|(k, _)| !first.xorbs.contains_key(*k)).map(|(k, v)| (*k, v.clone())).collect(),
        }
    }

    /// Every record of `self` is present in `o` (files: an equal or richer variant).
    pub fn subsumed_by(&self, o: &RShard) -> bool {
        self.files.iter().all(|(k, f)| o.files.get(k).map(|g| g.richer_or_equal(f)).unwrap_or(false))
            && self.xorbs.iter().all(|(k, x)| o.xorbs.get(k) == Some(x))
    }

    pub fn to_json(&self) -> Value {
        json!({
            "files": self.files.values().map(|f| f.to_json()).collect::<Vec<_>>(),
            "xorbs": self.xorbs.values().map(|x| x.to_json()).collect::<Vec<_>>(),
        })
    }
    pub fn from_json(v: &Value) -> RShard {
        let mut s = RShard::default();
        for f in v["files"].as_array().cloned().unwrap_or_default() {
            s.add_file(RFile::from_json(&f));
        }
        for x in v["xorbs"].as_array().cloned().unwrap_or_default() {
            s.add_xorb(RXorb::from_json(&x));
        }
        s
    }
    /// short human description
    pub fn describe(&self) -> String {
        let f: Vec<String> = self
            .files
            .values()
            .map(|f| format!("{}[{}{}{}]", khex(&f.hash), f.segs.len(), if f.verif.is_some() { "V" } else { "" }, if f.sha.is_some() { "M" } else { "" }))
            .collect();
        let x: Vec<String> = self.xorbs.values().map(|x| format!("{}[{}]", khex(&x.hash), x.chunks.len())).collect();
        format!("files{{{}}} xorbs{{{}}}", f.join(","), x.join(","))
    }
}

/// Name of a shard file: the keyed-BLAKE3 (data key) of the whole content, printed as four
/// 64-bit little-endian words in hex, plus ".mdb".
pub fn shard_file_name_of(content: &[u8]) -> String {
    let h = crate_refmodel_chunk_hash(content);
    let mut s = String::with_capacity(68);
    for w in 0..4 {
        let v = u64::from_le_bytes(h[w * 8..w * 8 + 8].try_into().unwrap());
        s.push_str(&format!("{v:016x}"));
    }
    s.push_str(".mdb");
    s
}

fn crate_refmodel_chunk_hash(data: &[u8]) -> [u8; 32] {
    labs::refmodel::chunk_hash(data)
}

// ------------------------------------------------------------------ adapters (field copies only)

use mdb_shard::cas_structs::{CASChunkSequenceEntry, CASChunkSequenceHeader, MDBCASInfo};
use mdb_shard::file_structs::{FileDataSequenceEntry, FileDataSequenceHeader, FileMetadataExt, FileVerificationEntry, MDBFileInfo};
use merklehash::MerkleHash;

pub fn mh(k: &K) -> MerkleHash {
    MerkleHash::from(*k)
}
pub fn kk(h: &MerkleHash) -> K {
    [h[0], h[1], h[2], h[3]]
}

pub fn to_real_file(f: &RFile) -> MDBFileInfo {
    MDBFileInfo {
        metadata: FileDataSequenceHeader::new(mh(&f.hash), f.segs.len(), f.verif.is_some(), f.sha.is_some()),
        segments: f
            .segs
            .iter()
            .map(|s| FileDataSequenceEntry {
                cas_hash: mh(&s.cas),
                cas_flags: s.flags,
                unpacked_segment_bytes: s.bytes,
                chunk_index_start: s.start,
                chunk_index_end: s.end,
            })
            .collect(),
        verification: f.verif.as_ref().map(|v| v.iter().map(|h| FileVerificationEntry::new(mh(h))).collect()).unwrap_or_default(),
        metadata_ext: f.sha.as_ref().map(|h| FileMetadataExt::new(mh(h))),
    }
}

/// A real record viewed as a plain record plus the raw header fields that the plain record derives.
#[derive(Clone, Debug, PartialEq, Eq)]
pub struct SeenFile {
    pub rec: RFile,
    pub raw_flags: u32,
    pub raw_num_entries: u32,
    pub verif_len: usize,
}

pub fn from_real_file(f: &MDBFileInfo) -> SeenFile {
    let has_v = f.metadata.file_flags & FLAG_VERIFICATION != 0;
    SeenFile {
        rec: RFile {
            hash: kk(&f.metadata.file_hash),
            segs: f
                .segments
                .iter()
                .map(|s| RSeg {
                    cas: kk(&s.cas_hash),
                    flags: s.cas_flags,
                    bytes: s.unpacked_segment_bytes,
                    start: s.chunk_index_start,
                    end: s.chunk_index_end,
                })
                .collect(),
            verif: if has_v { Some(f.verification.iter().map(|v| kk(&v.range_hash)).collect()) } else { None },
            sha: f.metadata_ext.as_ref().map(|m| kk(&m.sha256)),
        },
        raw_flags: f.metadata.file_flags,
        raw_num_entries: f.metadata.num_entries,
        verif_len: f.verification.len(),
    }
}

/// Does a real record equal the plain one in every field?
pub fn file_matches(seen: &SeenFile, want: &RFile) -> bool {
    seen.rec == *want
        && seen.raw_flags == want.flags()
        && seen.raw_num_entries as usize == want.segs.len()
        && seen.verif_len == want.verif.as_ref().map(|v| v.len()).unwrap_or(0)
}

pub fn to_real_xorb(x: &RXorb) -> MDBCASInfo {
    MDBCASInfo {
        metadata: CASChunkSequenceHeader {
            cas_hash: mh(&x.hash),
            cas_flags: x.flags,
            num_entries: x.chunks.len() as u32,
            num_bytes_in_cas: x.bytes_in_cas,
            num_bytes_on_disk: x.bytes_on_disk,
        },
        chunks: x.chunks.iter().map(|c| CASChunkSequenceEntry::new(mh(&c.hash), c.bytes, c.start)).collect(),
    }
}

#[derive(Clone, Debug, PartialEq, Eq)]
pub struct SeenXorb {
    pub rec: RXorb,
    pub raw_num_entries: u32,
}

pub fn from_real_xorb(x: &MDBCASInfo) -> SeenXorb {
    SeenXorb {
        rec: RXorb {
            hash: kk(&x.metadata.cas_hash),
            flags: x.metadata.cas_flags,
            bytes_in_cas: x.metadata.num_bytes_in_cas,
            bytes_on_disk: x.metadata.num_bytes_on_disk,
            chunks: x
                .chunks
                .iter()
                .map(|c| RChunk {
                    hash: kk(&c.chunk_hash),
                    bytes: c.unpacked_segment_bytes,
                    start: c.chunk_byte_range_start,
                })
                .collect(),
        },
        raw_num_entries: x.metadata.num_entries,
    }
}

pub fn xorb_matches(seen: &SeenXorb, want: &RXorb) -> bool {
    seen.rec == *want && seen.raw_num_entries as usize == want.chunks.len()
}

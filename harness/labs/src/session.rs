//! Session lab core: configurations, scenarios, the public driver (real `FileUploadSession`
//! on the real `LocalClient` store), store inspection and the oracles of C01 C02 C03 C11 C14 C15.

use std::collections::BTreeSet;
use std::io::Cursor;
use std::path::{Path, PathBuf};
use std::sync::Arc;

use cas_client::{FileProvider, OutputProvider};
use cas_object::CasObject;
use data::configurations::*;
use data::{CacheConfig, FileDownloader, FileUploadSession, PointerFile};
use deduplication::DeduplicationMetrics;
use futures::FutureExt;
use mdb_shard::file_structs::MDBFileInfo;
use mdb_shard::MDBShardInfo;
use serde_json::{json, Value};
use xet_threadpool::ThreadPool;

use crate::atoms::{word_str, Atoms};
use crate::refmodel::{self as rm, RH};

// ------------------------------------------------------------------ configuration

#[derive(Clone, Debug, PartialEq)]
pub struct Cfg {
    pub name: String,
    pub target: usize,
    pub max_xorb_chunks: Option<usize>,
    pub max_xorb_bytes: Option<usize>,
    pub nranges: Option<usize>,
    pub min_cpr: Option<f32>,
    pub shard_min: Option<u64>,
    pub ingest_block: Option<usize>,
    pub max_uploads: Option<usize>,
}

impl Cfg {
    pub fn env(&self) -> Vec<(String, String)> {
        let mut v = vec![("HF_XET_TARGET_CHUNK_SIZE".to_string(), self.target.to_string())];
        let mut put = |k: &str, x: Option<String>| {
            if let Some(x) = x {
                v.push((format!("HF_XET_{k}"), x));
            }
        };
        put("MAX_XORB_CHUNKS", self.max_xorb_chunks.map(|x| x.to_string()));
        put("MAX_XORB_BYTES", self.max_xorb_bytes.map(|x| x.to_string()));
        put("NRANGES_IN_STREAMING_FRAGMENTATION_ESTIMATOR", self.nranges.map(|x| x.to_string()));
        put("MIN_N_CHUNKS_PER_RANGE", self.min_cpr.map(|x| format!("{x}")));
        put("MDB_SHARD_MIN_TARGET_SIZE", self.shard_min.map(|x| x.to_string()));
        put("INGESTION_BLOCK_SIZE", self.ingest_block.map(|x| x.to_string()));
        put("MAX_CONCURRENT_UPLOADS", self.max_uploads.map(|x| x.to_string()));
        // a configuration named "...-indexcap<N>" caps the shard manager's chunk index at N entries
        if let Some(p) = self.name.find("indexcap") {
            let digits: String = self.name[p + 8..].chars().take_while(|c| c.is_ascii_digit()).collect();
            if !digits.is_empty() {
                v.push(("HF_XET_CHUNK_INDEX_TABLE_MAX_SIZE".to_string(), digits));
            }
        }
        v
    }
    pub fn to_json(&self) -> Value {
        json!({"name": self.name, "target": self.target, "max_xorb_chunks": self.max_xorb_chunks,
            "max_xorb_bytes": self.max_xorb_bytes, "nranges": self.nranges, "min_cpr": self.min_cpr,
            "shard_min": self.shard_min, "ingest_block": self.ingest_block, "max_uploads": self.max_uploads})
    }
    pub fn from_json(v: &Value) -> Cfg {
        Cfg {
            name: v["name"].as_str().unwrap_or("?").to_string(),
            target: v["target"].as_u64().unwrap_or(128) as usize,
            max_xorb_chunks: v["max_xorb_chunks"].as_u64().map(|x| x as usize),
            max_xorb_bytes: v["max_xorb_bytes"].as_u64().map(|x| x as usize),
            nranges: v["nranges"].as_u64().map(|x| x as usize),
            min_cpr: v["min_cpr"].as_f64().map(|x| x as f32),
            shard_min: v["shard_min"].as_u64(),
            ingest_block: v["ingest_block"].as_u64().map(|x| x as usize),
            max_uploads: v["max_uploads"].as_u64().map(|x| x as usize),
        }
    }
    /// fragmentation prevention can fire under this configuration
    pub fn prevention_on(&self) -> bool {
        // with the default 128-range estimator only files of hundreds of chunks can trigger prevention:
        // the tiny atom files never do, the production-constant (64 KiB target) megabyte files may
        self.min_cpr.map(|x| x > 0.0).unwrap_or(true) && (self.nranges.map(|n| n <= 16).unwrap_or(false) || self.target >= 65536)
    }
    pub fn eff_max_chunks(&self) -> usize {
        self.max_xorb_chunks.unwrap_or(8 * 1024)
    }
    pub fn eff_max_bytes(&self) -> usize {
        self.max_xorb_bytes.unwrap_or(64 * 1024 * 1024)
    }
}

// ------------------------------------------------------------------ scenarios

#[derive(Clone, Debug, PartialEq)]
pub enum Feed {
    Whole,
    PerAtom,
    Step(usize),
    Cut(usize),
}
impl Feed {
    pub fn to_json(&self) -> Value {
        match self {
            Feed::Whole => json!("whole"),
            Feed::PerAtom => json!("per-atom"),
            Feed::Step(n) => json!({"step": n}),
            Feed::Cut(n) => json!({"cut": n}),
        }
    }
    pub fn from_json(v: &Value) -> Feed {
        if let Some(s) = v.as_str() {
            return if s == "whole" { Feed::Whole } else { Feed::PerAtom };
        }
        if let Some(n) = v["step"].as_u64() {
            return Feed::Step(n as usize);
        }
        Feed::Cut(v["cut"].as_u64().unwrap_or(0) as usize)
    }
}

#[derive(Clone, Debug, PartialEq)]
pub struct FileSpec {
    pub word: Vec<u8>,
    /// 0 none, 1 one byte, 2 sub-chunk
    pub tail: u8,
    pub feed: Feed,
    /// raw content instead of an atom word (production-constant scenarios): (LCG seed, length,
    /// period): the first `period` bytes of the LCG stream repeated up to `length` (period 0 = no repetition)
    pub raw: Option<(u64, usize, usize)>,
}
impl FileSpec {
    pub fn new(word: &[u8], tail: u8, feed: Feed) -> FileSpec {
        FileSpec {
            word: word.to_vec(),
            tail,
            feed,
            raw: None,
        }
    }
    pub fn raw(seed: u64, len: usize, period: usize, feed: Feed) -> FileSpec {
        FileSpec {
            word: vec![],
            tail: 0,
            feed,
            raw: Some((seed, len, period)),
        }
    }
    /// The file's bytes.
    pub fn bytes(&self, atoms: &Atoms) -> Vec<u8> {
        match self.raw {
            None => atoms.build(&self.word, self.tail),
            Some((seed, len, period)) => {
                let block = vcore::util::Lcg::new(seed).bytes(if period == 0 { len } else { period.min(len.max(1)) });
                if period == 0 || block.is_empty() {
                    block
                } else {
                    block.iter().cycle().take(len).copied().collect()
                }
            },
        }
    }
    pub fn label(&self) -> String {
        match self.raw {
            Some((seed, len, period)) => format!("raw(seed{seed},{len}B,period{period})"),
            None => format!("{}{}", word_str(&self.word), ["", "+1", "+t"][self.tail as usize]),
        }
    }
    pub fn to_json(&self) -> Value {
        json!({"word": word_str(&self.word), "tail": self.tail, "feed": self.feed.to_json(), "raw": self.raw.map(|r| json!([r.0, r.1, r.2]))})
    }
    pub fn from_json(v: &Value) -> FileSpec {
        FileSpec {
            word: v["word"].as_str().unwrap_or("").bytes().map(|b| b - b'a').collect(),
            tail: v["tail"].as_u64().unwrap_or(0) as u8,
            feed: Feed::from_json(&v["feed"]),
            raw: v["raw"].as_array().map(|a| (a[0].as_u64().unwrap_or(0), a[1].as_u64().unwrap_or(0) as usize, a[2].as_u64().unwrap_or(0) as usize)),
        }
    }
    pub fn pieces(&self, atoms: &Atoms) -> Vec<Vec<u8>> {
        let bytes = self.bytes(atoms);
        match &self.feed {
            Feed::Whole => vec![bytes],
            Feed::PerAtom if self.raw.is_some() => vec![bytes],
            Feed::PerAtom => {
                let mut v = vec![];
                let mut s = 0;
                for b in atoms.boundaries(&self.word, self.tail) {
                    v.push(bytes[s..b].to_vec());
                    s = b;
                }
                v
            },
            Feed::Step(n) => bytes.chunks((*n).max(1)).map(|c| c.to_vec()).collect(),
            Feed::Cut(p) => {
                let p = (*p).min(bytes.len());
                vec![bytes[..p].to_vec(), bytes[p..].to_vec()]
            },
        }
    }
}

#[derive(Clone, Debug, PartialEq)]
pub struct SessionSpec {
    pub files: Vec<FileSpec>,
    /// interleaving: sequence of file indices; the k-th occurrence of i is file i's k-th op
    /// (its add_data calls in order, then finish).  Empty = files one after the other.
    pub order: Vec<usize>,
    /// 0 = default (zero) salt, n = salt filled with byte n
    pub salt: u8,
    /// the session is run by ANOTHER client that shares this store and this shard cache: it runs against its own
    /// directories (so this process' cached shard manager never hears of it) and afterwards the xorbs, the store
    /// shards and the cache shards it produced are placed into the shared directories, as another process would
    pub foreign: bool,
    /// with `foreign`: the other client works with a shard cache of its own - its xorbs and shards reach the store,
    /// nothing reaches this client's shard cache (the store then holds xorbs this client's cache does not know)
    pub foreign_no_cache: bool,
}
impl SessionSpec {
    pub fn seq(files: Vec<FileSpec>) -> SessionSpec {
        SessionSpec {
            files,
            order: vec![],
            salt: 0,
            foreign: false,
            foreign_no_cache: false,
        }
    }
    pub fn to_json(&self) -> Value {
        json!({"files": self.files.iter().map(|f| f.to_json()).collect::<Vec<_>>(), "order": self.order, "salt": self.salt, "foreign": self.foreign, "foreign_no_cache": self.foreign_no_cache})
    }
    pub fn from_json(v: &Value) -> SessionSpec {
        SessionSpec {
            files: v["files"].as_array().map(|a| a.iter().map(FileSpec::from_json).collect()).unwrap_or_default(),
            order: v["order"].as_array().map(|a| a.iter().map(|x| x.as_u64().unwrap_or(0) as usize).collect()).unwrap_or_default(),
            salt: v["salt"].as_u64().unwrap_or(0) as u8,
            foreign: v["foreign"].as_bool().unwrap_or(false),
            foreign_no_cache: v["foreign_no_cache"].as_bool().unwrap_or(false),
        }
    }
    pub fn label(&self) -> String {
        let f: Vec<String> = self.files.iter().map(|f| f.label()).collect();
        format!("[{}]{}", f.join(","), if self.foreign_no_cache { "@other-client-own-cache" } else if self.foreign { "@other-client" } else { "" })
    }
}

#[derive(Clone, Debug, PartialEq)]
pub struct Scenario {
    pub family: String,
    pub sessions: Vec<SessionSpec>,
}
impl Scenario {
    pub fn to_json(&self) -> Value {
        json!({"family": self.family, "sessions": self.sessions.iter().map(|s| s.to_json()).collect::<Vec<_>>()})
    }
    pub fn from_json(v: &Value) -> Scenario {
        Scenario {
            family: v["family"].as_str().unwrap_or("replay").to_string(),
            sessions: v["sessions"].as_array().map(|a| a.iter().map(SessionSpec::from_json).collect()).unwrap_or_default(),
        }
    }
    pub fn label(&self) -> String {
        self.sessions.iter().map(|s| s.label()).collect::<Vec<_>>().join(" ; ")
    }
}

// ------------------------------------------------------------------ observations

#[derive(Clone, Debug, Default)]
pub struct FileObs {
    pub label: String,
    pub bytes: Vec<u8>,
    pub salt: u8,
    pub pointer_hash: String,
    pub pointer_size: u64,
    pub pointer_text_roundtrip: bool,
    pub metrics: Option<DeduplicationMetrics>,
}

#[derive(Clone, Debug, Default)]
pub struct StoreXorb {
    pub name_hash: RH,
    pub file_len: u64,
    /// decoded by the repo's CasObject
    pub chunks: Vec<Vec<u8>>,
    pub repo_decode_err: Option<String>,
    /// decoded by the reference frame decoder
    pub ref_chunks: Option<Vec<Vec<u8>>>,
    pub ref_decode_err: Option<String>,
    pub footer_hashes: Vec<RH>,
    pub validator_ok: Option<bool>,
}

#[derive(Clone, Debug, Default)]
pub struct ShardView {
    pub name: String,
    pub len: u64,
    pub files: Vec<MDBFileInfo>,
    /// (xorb hash, [(chunk hash, len)])
    pub cas: Vec<(RH, Vec<(RH, u64)>)>,
    pub err: Option<String>,
}

#[derive(Clone, Debug, Default)]
pub struct SessObs {
    pub files: Vec<FileObs>,
    pub error: Option<String>,
    pub panic: Option<String>,
    pub metrics: Option<DeduplicationMetrics>,
    pub file_infos: Vec<MDBFileInfo>,
    pub new_xorbs: Vec<StoreXorb>,
    pub new_store_shards: Vec<ShardView>,
    pub cache_shards_after: Vec<ShardView>,
}

pub fn salt_of(n: u8) -> [u8; 32] {
    [n; 32]
}

pub fn make_config(cas: &Path, salt: u8) -> Arc<TranslatorConfig> {
    let path = cas.join("xet");
    std::fs::create_dir_all(&path).expect("create cas dir");
    Arc::new(TranslatorConfig {
        data_config: DataConfig {
            endpoint: Endpoint::FileSystem(path.join("xorbs")),
            compression: Default::default(),
            auth: None,
            prefix: "default".into(),
            cache_config: CacheConfig {
                cache_directory: path.join("cache"),
                cache_size: 10 << 30,
            },
            staging_directory: None,
        },
        shard_config: ShardConfig {
            prefix: "default".into(),
            cache_directory: path.join("shard-cache"),
            session_directory: path.join("shard-session"),
            global_dedup_policy: Default::default(),
            repo_salt: salt_of(salt),
        },
        repo_info: Some(RepoInfo {
            repo_paths: vec!["".into()],
        }),
    })
}

pub fn store_xorb_dir(cas: &Path) -> PathBuf {
    cas.join("xet").join("xorbs").join("xorbs")
}
pub fn store_shard_dir(cas: &Path) -> PathBuf {
    cas.join("xet").join("xorbs").join("shards")
}
pub fn shard_cache_dir(cas: &Path) -> PathBuf {
    cas.join("xet").join("shard-cache")
}

fn list_names(dir: &Path) -> BTreeSet<String> {
    let mut s = BTreeSet::new();
    if let Ok(rd) = std::fs::read_dir(dir) {
        for e in rd.flatten() {
            if e.file_type().map(|t| t.is_file()).unwrap_or(false) {
                s.insert(e.file_name().to_string_lossy().to_string());
            }
        }
    }
    s
}

pub fn read_store_xorb(path: &Path) -> Option<StoreXorb> {
    let name = path.file_name()?.to_string_lossy().to_string();
    let hex = name.strip_prefix("default.")?;
    let name_hash = rm::from_hex(hex)?;
    let buf = std::fs::read(path).ok()?;
    let mut x = StoreXorb {
        name_hash,
        file_len: buf.len() as u64,
        ..Default::default()
    };
    // repo decoder
    let r = std::panic::catch_unwind(|| -> Result<(Vec<Vec<u8>>, Vec<RH>), String> {
        let mut rd = Cursor::new(&buf);
        let cas = CasObject::deserialize(&mut rd).map_err(|e| format!("{e:?}"))?;
        let all = cas.get_all_bytes(&mut rd).map_err(|e| format!("{e:?}"))?;
        let n = cas.info.num_chunks as usize;
        let mut chunks = vec![];
        for i in 0..n {
            let c = cas.get_bytes_by_chunk_range(&mut rd, i as u32, i as u32 + 1).map_err(|e| format!("{e:?}"))?;
            chunks.push(c);
        }
        if chunks.concat() != all {
            return Err("get_all_bytes differs from the concatenation of single-chunk reads".into());
        }
        Ok((chunks, cas.info.chunk_hashes.iter().map(rm::from_mh).collect()))
    });
    match r {
        Ok(Ok((c, h))) => {
            x.chunks = c;
            x.footer_hashes = h;
        },
        Ok(Err(e)) => x.repo_decode_err = Some(e),
        Err(p) => x.repo_decode_err = Some(format!("panic: {}", vcore::util::panic_text(&p))),
    }
    // reference decoder
    match rm::split_xorb(&buf).and_then(|(frames, _)| rm::decode_frames(frames)) {
        Ok(fr) => x.ref_chunks = Some(fr.into_iter().map(|f| f.data).collect()),
        Err(e) => x.ref_decode_err = Some(e),
    }
    // receiver-side validator
    let hash = rm::to_mh(&name_hash);
    let v = std::panic::catch_unwind(|| {
        let mut rd = Cursor::new(&buf);
        CasObject::validate_cas_object(&mut rd, &hash)
    });
    x.validator_ok = match v {
        Ok(Ok(Some(_))) => Some(true),
        Ok(Ok(None)) => Some(false),
        Ok(Err(_)) => Some(false),
        Err(_) => None,
    };
    Some(x)
}

pub fn read_shard(path: &Path) -> ShardView {
    let name = path.file_name().map(|n| n.to_string_lossy().to_string()).unwrap_or_default();
    let mut v = ShardView {
        name,
        ..Default::default()
    };
    let buf = match std::fs::read(path) {
        Ok(b) => b,
        Err(e) => {
            v.err = Some(format!("read: {e}"));
            return v;
        },
    };
    parse_shard_bytes(&buf, &mut v);
    v
}

pub fn parse_shard_bytes(buf: &[u8], v: &mut ShardView) {
    v.len = buf.len() as u64;
    let r = std::panic::catch_unwind(|| -> Result<(Vec<MDBFileInfo>, Vec<(RH, Vec<(RH, u64)>)>), String> {
        let mut rd = Cursor::new(&buf);
        let si = MDBShardInfo::load_from_reader(&mut rd).map_err(|e| format!("{e:?}"))?;
        let files = si.read_all_file_info_sections(&mut rd).map_err(|e| format!("{e:?}"))?;
        let cas = si.read_all_cas_blocks_full(&mut rd).map_err(|e| format!("{e:?}"))?;
        let cas = cas
            .into_iter()
            .map(|c| {
                (
                    rm::from_mh(&c.metadata.cas_hash),
                    c.chunks.iter().map(|e| (rm::from_mh(&e.chunk_hash), e.unpacked_segment_bytes as u64)).collect(),
                )
            })
            .collect();
        Ok((files, cas))
    });
    match r {
        Ok(Ok((f, c))) => {
            v.files = f;
            v.cas = c;
        },
        Ok(Err(e)) => v.err = Some(e),
        Err(p) => v.err = Some(format!("panic: {}", vcore::util::panic_text(&p))),
    }
}

pub fn read_shard_dir(dir: &Path) -> Vec<ShardView> {
    list_names(dir)
        .into_iter()
        .filter(|n| n.ends_with(".mdb"))
        .map(|n| read_shard(&dir.join(n)))
        .collect()
}

// ------------------------------------------------------------------ the public driver

pub struct Lab {
    pub cfg: Cfg,
    pub atoms: Atoms,
    pub pool: Arc<ThreadPool>,
    _rt: tokio::runtime::Runtime,
    pub scratch: PathBuf,
    pub counter: u64,
}

impl Lab {
    pub fn new(cfg: Cfg, k_atoms: usize, scratch: &Path) -> Lab {
        let rt = tokio::runtime::Builder::new_multi_thread()
            .worker_threads(2)
            .enable_all()
            .build()
            .expect("tokio runtime");
        let pool = Arc::new(ThreadPool::from_external(rt.handle().clone()));
        let atoms = Atoms::harvest(cfg.target, k_atoms, 7);
        Lab {
            cfg,
            atoms,
            pool,
            _rt: rt,
            scratch: scratch.to_path_buf(),
            counter: 0,
        }
    }

    pub fn fresh_cas(&mut self) -> PathBuf {
        self.counter += 1;
        let p = self.scratch.join(format!("cas{}", self.counter));
        let _ = std::fs::remove_dir_all(&p);
        std::fs::create_dir_all(&p).expect("create cas");
        p
    }

    /// Runs one session on the store at `cas` through the public API only.
    pub fn run_session(&self, cas: &Path, spec: &SessionSpec) -> SessObs {
        if spec.foreign {
            let other = cas.join("other-client");
            let mut plain = spec.clone();
            plain.foreign = false;
            plain.foreign_no_cache = false;
            let mut obs = self.run_session(&other, &plain);
            let mut moves = vec![(store_xorb_dir(&other), store_xorb_dir(cas)), (store_shard_dir(&other), store_shard_dir(cas))];
            if !spec.foreign_no_cache {
                moves.push((shard_cache_dir(&other), shard_cache_dir(cas)));
            }
            for (from, to) in moves {
                let _ = std::fs::create_dir_all(&to);
                for n in list_names(&from) {
                    let (a, b) = (from.join(&n), to.join(&n));
                    if a.is_file() && !b.exists() && !n.starts_with('.') {
                        let _ = std::fs::copy(&a, &b);
                    }
                }
            }
            obs.cache_shards_after = read_shard_dir(&shard_cache_dir(cas));
            return obs;
        }
        let xorbs_before = list_names(&store_xorb_dir(cas));
        let shards_before = list_names(&store_shard_dir(cas));
        let config = make_config(cas, spec.salt);
        let pool = self.pool.clone();
        let atoms = self.atoms.clone();
        let spec2 = spec.clone();
        let fut = async move {
            let mut obs = SessObs::default();
            let r = std::panic::AssertUnwindSafe(drive_session(config, pool, &atoms, &spec2, &mut obs))
                .catch_unwind()
                .await;
            match r {
                Ok(Ok(())) => {},
                Ok(Err(e)) => obs.error = Some(e),
                Err(p) => obs.panic = Some(format!("{} @ {}", vcore::util::panic_text(&p), vcore::util::last_panic_loc())),
            }
            obs
        };
        let mut obs = match self.pool.external_run_async_task(fut) {
            Ok(o) => o,
            Err(e) => SessObs {
                panic: Some(format!("runtime: {e:?}")),
                ..Default::default()
            },
        };
        for n in list_names(&store_xorb_dir(cas)).difference(&xorbs_before) {
            if let Some(x) = read_store_xorb(&store_xorb_dir(cas).join(n)) {
                obs.new_xorbs.push(x);
            }
        }
        for n in list_names(&store_shard_dir(cas)).difference(&shards_before) {
            if n.ends_with(".mdb") {
                obs.new_store_shards.push(read_shard(&store_shard_dir(cas).join(n)));
            }
        }
        obs.cache_shards_after = read_shard_dir(&shard_cache_dir(cas));
        obs
    }

    /// Downloads `hash` (optionally a byte range) through the public `FileDownloader`.
    pub fn download(&self, cas: &Path, pointer: &PointerFile, range: Option<(u64, u64)>) -> Result<(Vec<u8>, u64), String> {
        let config = make_config(cas, 0);
        let pool = self.pool.clone();
        let out = cas.join(format!("dl-{}", std::process::id()));
        let _ = std::fs::remove_file(&out);
        let out2 = out.clone();
        let pointer = pointer.clone();
        let fut = async move {
            let r = std::panic::AssertUnwindSafe(async {
                let dl = FileDownloader::new(config, pool).await.map_err(|e| format!("downloader: {e:?}"))?;
                let prov = OutputProvider::File(FileProvider::new(out2.clone()));
                let r = range.map(|(s, e)| cas_types::FileRange { start: s, end: e });
                let n = dl
                    .smudge_file_from_pointer(&pointer, &prov, r, None)
                    .await
                    .map_err(|e| format!("smudge: {e:?}"))?;
                Ok::<u64, String>(n)
            })
            .catch_unwind()
            .await;
            match r {
                Ok(x) => x,
                Err(p) => Err(format!("panic: {} @ {}", vcore::util::panic_text(&p), vcore::util::last_panic_loc())),
            }
        };
        let n = match self.pool.external_run_async_task(fut) {
            Ok(r) => r?,
            Err(e) => return Err(format!("runtime: {e:?}")),
        };
        let bytes = std::fs::read(&out).unwrap_or_default();
        let _ = std::fs::remove_file(&out);
        Ok((bytes, n))
    }
}

async fn drive_session(
    config: Arc<TranslatorConfig>,
    pool: Arc<ThreadPool>,
    atoms: &Atoms,
    spec: &SessionSpec,
    obs: &mut SessObs,
) -> Result<(), String> {
    let session = FileUploadSession::new(config, pool, None).await.map_err(|e| format!("new: {e:?}"))?;
    let n = spec.files.len();
    let pieces: Vec<Vec<Vec<u8>>> = spec.files.iter().map(|f| f.pieces(atoms)).collect();
    let order: Vec<usize> = if spec.order.is_empty() {
        (0..n).flat_map(|i| std::iter::repeat(i).take(pieces[i].len() + 1)).collect()
    } else {
        spec.order.clone()
    };
    let mut cleaners: Vec<Option<_>> = (0..n).map(|_| None).collect();
    let mut next_op = vec![0usize; n];
    obs.files = spec
        .files
        .iter()
        .map(|f| FileObs {
            label: f.label(),
            bytes: f.bytes(atoms),
            salt: spec.salt,
            ..Default::default()
        })
        .collect();
    for &i in &order {
        if next_op[i] == 0 && cleaners[i].is_none() {
            cleaners[i] = Some(session.start_clean(format!("file{i}")));
        }
        let k = next_op[i];
        next_op[i] += 1;
        if k < pieces[i].len() {
            cleaners[i]
                .as_mut()
                .unwrap()
                .add_data(&pieces[i][k])
                .await
                .map_err(|e| format!("add_data(file{i}, piece {k}): {e:?}"))?;
        } else if k == pieces[i].len() {
            let c = cleaners[i].take().unwrap();
            let (pf, m) = c.finish().await.map_err(|e| format!("finish(file{i}): {e:?}"))?;
            let text = pf.to_string();
            let back = PointerFile::init_from_string(&text, "");
            let fo = &mut obs.files[i];
            fo.pointer_hash = pf.hash_string().clone();
            fo.pointer_size = pf.filesize();
            fo.pointer_text_roundtrip = back.is_valid() && back.hash_string() == pf.hash_string() && back.filesize() == pf.filesize();
            fo.metrics = Some(m);
        }
    }
    drop(cleaners);
    let (m, infos) = session.finalize_with_file_info().await.map_err(|e| format!("finalize: {e:?}"))?;
    obs.metrics = Some(m);
    obs.file_infos = infos;
    Ok(())
}

